//! Rule-tree generator `T` (C04; reused by C05, C06, C17, C18): style rules with `&` in every allowed
//! position, declarations, nested properties, `@media`, `@supports`, unknown at-rules with and
//! without bodies, `@at-root` bare / with a selector / with a query. AST + proptest strategy +
//! contextual repair (`sanitize`, so that every generated tree is inside the documented domain of
//! dart-sass 1.54) + SCSS and indented-syntax printers + shape metrics.
//!
//! Nothing here decides pass/fail: the expected output is computed by `crate::oracle::flatten`.

use proptest::prelude::*;
use serde::{Deserialize, Serialize};

pub const MAX_DEPTH: usize = 4;
pub const MAX_WIDTH: usize = 3;
/// cap on the number of complex selectors a resolved selector list may reach (keeps `& &` products small)
pub const MAX_RESOLVED: usize = 48;

#[derive(Clone, Copy, Debug, PartialEq, Eq, Hash, Serialize, Deserialize)]
pub enum Comb {
    /// descendant (whitespace)
    Desc,
    /// `>`
    Child,
    /// `+`
    Next,
    /// `~`
    Sibling,
}

impl Comb {
    pub fn symbol(self) -> &'static str {
        match self {
            Comb::Desc => "",
            Comb::Child => ">",
            Comb::Next => "+",
            Comb::Sibling => "~",
        }
    }
}

/// One compound selector. `amp = Some(suffix)` means the compound starts with `&` immediately
/// followed by `suffix` (`""` for a bare `&`); `simples` follow (`.y`, `:hover`; when `amp` is
/// `None` the first simple may be a type selector and the list is non-empty).
#[derive(Clone, Debug, PartialEq, Eq, Hash, Serialize, Deserialize)]
pub struct Compound {
    pub amp: Option<String>,
    pub simples: Vec<String>,
}

#[derive(Clone, Debug, PartialEq, Eq, Hash, Serialize, Deserialize)]
pub struct Complex {
    /// leading combinator (`> b`), never `Desc`
    pub lead: Option<Comb>,
    pub first: Compound,
    pub rest: Vec<(Comb, Compound)>,
}

impl Complex {
    pub fn compounds(&self) -> impl Iterator<Item = &Compound> {
        std::iter::once(&self.first).chain(self.rest.iter().map(|(_, c)| c))
    }
    pub fn amp_count(&self) -> usize {
        self.compounds().filter(|c| c.amp.is_some()).count()
    }
}

#[derive(Clone, Debug, PartialEq, Eq, Hash, Serialize, Deserialize)]
pub struct SelList(pub Vec<Complex>);

#[derive(Clone, Debug, PartialEq, Eq, Hash, Serialize, Deserialize)]
pub struct Query {
    /// `(with: ...)` when true, `(without: ...)` when false
    pub with: bool,
    /// `rule`, `media`, `supports`, `all` or an at-rule name
    pub names: Vec<String>,
}

#[derive(Clone, Debug, PartialEq, Eq, Hash, Serialize, Deserialize)]
pub enum Node {
    Decl {
        prop: String,
        value: String,
    },
    /// `name: value? { children }`; children are `Decl` or (one more level of) `Nested`
    Nested {
        name: String,
        value: Option<String>,
        children: Vec<Node>,
    },
    Rule {
        sel: SelList,
        body: Vec<Node>,
    },
    Media {
        query: String,
        body: Vec<Node>,
    },
    Supports {
        cond: String,
        body: Vec<Node>,
    },
    /// `@name params;` (body = None) or `@name params { body }`
    Unknown {
        name: String,
        params: String,
        body: Option<Vec<Node>>,
    },
    /// `@at-root { body }`, `@at-root sel { body }`, `@at-root (query) { body }` (never both sel and query)
    AtRoot {
        query: Option<Query>,
        sel: Option<SelList>,
        body: Vec<Node>,
    },
}

#[derive(Clone, Debug, PartialEq, Eq, Hash, Serialize, Deserialize)]
pub struct Tree(pub Vec<Node>);

// ------------------------------------------------------------------------------------------------
// vocabulary

pub const TYPES: &[&str] = &["a", "b", "c", "d", "e"];
pub const EXTRAS: &[&str] = &[".x", ".y", ".z", ":hover", ":focus"];
pub const SUFFIXES: &[&str] = &["-s", "__e", "--m", "2"];
pub const PROPS: &[&str] = &["p", "q", "r", "color", "margin-top"];
pub const NESTED_NAMES: &[&str] = &["font", "border"];
pub const SUB_NAMES: &[&str] = &["family", "size", "top"];
pub const MEDIA: &[&str] = &["screen", "print", "(min-width: 100px)", "screen and (color)"];
pub const SUPPORTS: &[&str] = &["(display: grid)", "not (display: grid)", "(a: b) and (c: d)"];
pub const UNKNOWN: &[&str] = &["foo", "bar", "-moz-thing"];

// ------------------------------------------------------------------------------------------------
// strategy

fn pick(list: &'static [&'static str]) -> impl Strategy<Value = String> {
    (0..list.len()).prop_map(move |i| list[i].to_string())
}

fn comb() -> impl Strategy<Value = Comb> {
    prop_oneof![
        5 => Just(Comb::Desc),
        2 => Just(Comb::Child),
        1 => Just(Comb::Next),
        1 => Just(Comb::Sibling),
    ]
}

fn plain_compound() -> impl Strategy<Value = Compound> {
    (pick(TYPES), proptest::collection::vec(pick(EXTRAS), 0..=1), any::<bool>()).prop_map(|(t, ex, class_only)| {
        let mut simples = vec![];
        if !(class_only && !ex.is_empty()) {
            simples.push(t);
        }
        simples.extend(ex);
        Compound { amp: None, simples }
    })
}

fn compound() -> impl Strategy<Value = Compound> {
    prop_oneof![
        6 => plain_compound(),
        2 => Just(Compound { amp: Some(String::new()), simples: vec![] }),
        2 => pick(SUFFIXES).prop_map(|s| Compound { amp: Some(s), simples: vec![] }),
        2 => pick(EXTRAS).prop_map(|e| Compound { amp: Some(String::new()), simples: vec![e] }),
        1 => (pick(SUFFIXES), pick(EXTRAS)).prop_map(|(s, e)| Compound { amp: Some(s), simples: vec![e] }),
    ]
}

fn complex() -> impl Strategy<Value = Complex> {
    (
        prop_oneof![12 => Just(None), 1 => Just(Some(Comb::Child)), 1 => Just(Some(Comb::Next)), 1 => Just(Some(Comb::Sibling))],
        compound(),
        proptest::collection::vec((comb(), compound()), 0..=2),
    )
        .prop_map(|(lead, first, rest)| Complex { lead, first, rest })
}

pub fn sel_list() -> impl Strategy<Value = SelList> {
    prop_oneof![
        5 => proptest::collection::vec(complex(), 1..=1),
        3 => proptest::collection::vec(complex(), 2..=2),
        1 => proptest::collection::vec(complex(), 3..=3),
    ]
    .prop_map(SelList)
}

fn value() -> impl Strategy<Value = String> {
    (0u8..4).prop_map(|i| format!("w{}", i))
}

fn decl() -> impl Strategy<Value = Node> {
    (pick(PROPS), value()).prop_map(|(prop, value)| Node::Decl { prop, value })
}

fn nested() -> impl Strategy<Value = Node> {
    let leaf = (pick(SUB_NAMES), value()).prop_map(|(prop, value)| Node::Decl { prop, value }).boxed();
    let inner = (pick(SUB_NAMES), proptest::option::of(value()), proptest::collection::vec(leaf.clone(), 1..=2))
        .prop_map(|(name, value, children)| Node::Nested { name, value, children });
    (
        pick(NESTED_NAMES),
        proptest::option::of(value()),
        proptest::collection::vec(prop_oneof![3 => leaf, 1 => inner], 1..=3),
    )
        .prop_map(|(name, value, children)| Node::Nested { name, value, children })
}

pub fn query() -> impl Strategy<Value = Query> {
    let name = prop_oneof![
        3 => Just("rule".to_string()),
        3 => Just("media".to_string()),
        2 => Just("supports".to_string()),
        2 => Just("all".to_string()),
        1 => pick(UNKNOWN),
    ];
    (any::<bool>(), proptest::collection::vec(name, 1..=2)).prop_map(|(with, mut names)| {
        names.dedup();
        Query { with, names }
    })
}

fn childless() -> impl Strategy<Value = Node> {
    (pick(UNKNOWN), value()).prop_map(|(name, params)| Node::Unknown { name, params, body: None })
}

fn leafish() -> impl Strategy<Value = Node> {
    prop_oneof![6 => decl(), 1 => nested(), 1 => childless()]
}

fn node(depth: usize) -> BoxedStrategy<Node> {
    if depth == 0 {
        return leafish().boxed();
    }
    let body = || {
        prop_oneof![
            1 => proptest::collection::vec(node(depth - 1), 0..=0),
            12 => proptest::collection::vec(node(depth - 1), 1..=MAX_WIDTH),
        ]
    };
    prop_oneof![
        10 => leafish(),
        7 => (sel_list(), body()).prop_map(|(sel, body)| Node::Rule { sel, body }),
        2 => (pick(MEDIA), body()).prop_map(|(query, body)| Node::Media { query, body }),
        1 => (pick(SUPPORTS), body()).prop_map(|(cond, body)| Node::Supports { cond, body }),
        1 => (pick(UNKNOWN), prop_oneof![Just(String::new()), value()], body())
            .prop_map(|(name, params, body)| Node::Unknown { name, params, body: Some(body) }),
        1 => body().prop_map(|body| Node::AtRoot { query: None, sel: None, body }),
        2 => (sel_list(), body()).prop_map(|(sel, body)| Node::AtRoot { query: None, sel: Some(sel), body }),
        3 => (query(), body()).prop_map(|(q, body)| Node::AtRoot { query: Some(q), sel: None, body }),
    ]
    .boxed()
}

/// Free-form trees repaired into the domain. `at_rule_bias` 0..=255: how often an `@at-root` that
/// would sit below two or more at-rules is kept (the class in which only per-path order is asserted).
pub fn tree() -> impl Strategy<Value = Tree> {
    (
        proptest::collection::vec(
            prop_oneof![
                6 => (sel_list(), proptest::collection::vec(node(MAX_DEPTH - 1), 1..=MAX_WIDTH))
                    .prop_map(|(sel, body)| Node::Rule { sel, body }),
                2 => node(MAX_DEPTH - 1),
            ],
            1..=MAX_WIDTH,
        ),
        any::<u8>(),
    )
        .prop_map(|(nodes, keep_deep)| sanitize(&Tree(nodes), keep_deep < 140))
}

// ------------------------------------------------------------------------------------------------
// domain: contextual validity (what dart-sass 1.54 accepts and what the property text covers)

#[derive(Clone, Debug)]
struct Cx {
    /// an enclosing style rule exists in the source (so `&` has something to refer to)
    has_parent_sel: bool,
    /// number of complex selectors of that parent (for the size cap)
    parent_size: usize,
    /// declarations would land in a style rule (the parent selector is not excluded by `@at-root`)
    style_in_effect: bool,
    /// directly inside the body of an unknown at-rule with no style rule in effect
    bare_unknown: bool,
    /// the current body has no style rule in effect and is not the stylesheet root
    bare_container: bool,
    /// directly in the body of an `@at-root` with no style rule in effect (the body continues an
    /// already open block or the stylesheet)
    at_root_body_no_style: bool,
    media_on_path: bool,
    /// at-rules with bodies above this point in the source
    at_rules_above: usize,
    keep_deep_at_root: bool,
}

fn query_excludes_rule(q: &Option<Query>) -> bool {
    match q {
        None => true,
        Some(q) => {
            let listed = q.names.iter().any(|n| n == "all" || n == "rule");
            listed != q.with
        }
    }
}

fn contains_at_root(n: &Node) -> bool {
    match n {
        Node::AtRoot { .. } => true,
        Node::Rule { body, .. } | Node::Media { body, .. } | Node::Supports { body, .. } => {
            body.iter().any(contains_at_root)
        }
        Node::Unknown { body: Some(b), .. } => b.iter().any(contains_at_root),
        _ => false,
    }
}

fn fix_sel(sel: &SelList, cx: &Cx) -> (SelList, usize) {
    let mut out = vec![];
    for c in &sel.0 {
        let mut c = c.clone();
        if !cx.has_parent_sel {
            // top level (or nothing to refer to): `&` is an error, strip it
            for cmp in std::iter::once(&mut c.first).chain(c.rest.iter_mut().map(|(_, x)| x)) {
                if cmp.amp.take().is_some() {
                    cmp.simples.insert(0, "z".to_string());
                }
            }
        }
        if c.lead.is_some() && (!cx.style_in_effect || c.amp_count() > 0) {
            c.lead = None;
        }
        out.push(c);
    }
    let size = |cs: &[Complex]| -> usize {
        cs.iter()
            .map(|c| {
                let k = c.amp_count();
                if k > 0 {
                    cx.parent_size.saturating_pow(k as u32)
                } else if cx.style_in_effect {
                    cx.parent_size
                } else {
                    1
                }
            })
            .fold(0usize, |a, b| a.saturating_add(b))
    };
    if size(&out) > MAX_RESOLVED {
        out.truncate(1);
    }
    if size(&out) > MAX_RESOLVED {
        // keep the first `&` only
        let c = &mut out[0];
        let mut seen = false;
        for cmp in std::iter::once(&mut c.first).chain(c.rest.iter_mut().map(|(_, x)| x)) {
            if cmp.amp.is_some() {
                if seen {
                    cmp.amp = None;
                    cmp.simples.insert(0, "z".to_string());
                }
                seen = true;
            }
        }
    }
    let n = size(&out).max(1);
    (SelList(out), n)
}

fn fix_body(body: &[Node], cx: &Cx, depth_left: usize) -> Vec<Node> {
    let mut out = vec![];
    let mut saw_at_root = false;
    for n in body.iter().take(MAX_WIDTH) {
        match n {
            Node::Decl { .. } | Node::Nested { .. } => {
                let ok = cx.style_in_effect || (cx.bare_unknown && !saw_at_root);
                if ok {
                    out.push(n.clone());
                }
            }
            Node::Unknown { body: None, .. } => {
                // childless at-rules are allowed anywhere; in a body without a style rule they are
                // kept out after a sibling containing @at-root (see `assumptions` of C04)
                let ok = cx.style_in_effect || (!cx.at_root_body_no_style && (!cx.bare_container || !saw_at_root));
                if ok {
                    out.push(n.clone());
                }
            }
            _ if depth_left == 0 => {}
            Node::Rule { sel, body } => {
                let (sel, size) = fix_sel(sel, cx);
                let inner = Cx {
                    has_parent_sel: true,
                    parent_size: size,
                    style_in_effect: true,
                    bare_unknown: false,
                    bare_container: false,
                    at_root_body_no_style: false,
                    ..cx.clone()
                };
                saw_at_root |= body.iter().any(contains_at_root);
                out.push(Node::Rule { sel, body: fix_body(body, &inner, depth_left - 1) });
            }
            Node::Media { query, body } => {
                let inner = Cx {
                    bare_unknown: false,
                    bare_container: !cx.style_in_effect,
                    at_root_body_no_style: false,
                    media_on_path: true,
                    at_rules_above: cx.at_rules_above + 1,
                    ..cx.clone()
                };
                saw_at_root |= body.iter().any(contains_at_root);
                if cx.media_on_path {
                    // nested media (query merging) is C17's subject
                    let inner = Cx { media_on_path: true, ..inner };
                    out.push(Node::Supports {
                        cond: "(m: n)".to_string(),
                        body: fix_body(body, &inner, depth_left - 1),
                    });
                } else {
                    out.push(Node::Media { query: query.clone(), body: fix_body(body, &inner, depth_left - 1) });
                }
            }
            Node::Supports { cond, body } => {
                let inner = Cx {
                    bare_unknown: false,
                    bare_container: !cx.style_in_effect,
                    at_root_body_no_style: false,
                    at_rules_above: cx.at_rules_above + 1,
                    ..cx.clone()
                };
                saw_at_root |= body.iter().any(contains_at_root);
                out.push(Node::Supports { cond: cond.clone(), body: fix_body(body, &inner, depth_left - 1) });
            }
            Node::Unknown { name, params, body: Some(body) } => {
                let inner = Cx {
                    bare_unknown: !cx.style_in_effect,
                    bare_container: !cx.style_in_effect,
                    at_root_body_no_style: false,
                    at_rules_above: cx.at_rules_above + 1,
                    ..cx.clone()
                };
                saw_at_root |= body.iter().any(contains_at_root);
                out.push(Node::Unknown {
                    name: name.clone(),
                    params: params.clone(),
                    body: Some(fix_body(body, &inner, depth_left - 1)),
                });
            }
            Node::AtRoot { query, sel, body } => {
                if cx.at_rules_above >= 2 && !cx.keep_deep_at_root {
                    // keep most trees in the class where global order is asserted: splice the body
                    // of a deep @at-root in place of the rule (only declaration-like children and
                    // whatever is valid here survive the repair)
                    let spliced = fix_body(body, cx, depth_left.saturating_sub(1));
                    for s in spliced {
                        if out.len() < MAX_WIDTH {
                            saw_at_root |= contains_at_root(&s);
                            out.push(s);
                        }
                    }
                    continue;
                }
                saw_at_root = true;
                if let Some(sel) = sel {
                    // `@at-root sel {..}` = `@at-root { sel {..} }`
                    let at = Cx { style_in_effect: false, bare_unknown: false, ..cx.clone() };
                    let (sel, size) = fix_sel(sel, &at);
                    let inner = Cx {
                        has_parent_sel: true,
                        parent_size: size,
                        style_in_effect: true,
                        bare_unknown: false,
                        bare_container: false,
                        ..cx.clone()
                    };
                    out.push(Node::AtRoot {
                        query: None,
                        sel: Some(sel),
                        body: fix_body(body, &inner, depth_left - 1),
                    });
                } else {
                    let excl = query_excludes_rule(query);
                    let inner = Cx {
                        style_in_effect: cx.style_in_effect && !excl,
                        bare_unknown: false,
                        bare_container: !(cx.style_in_effect && !excl),
                        at_root_body_no_style: !(cx.style_in_effect && !excl),
                        ..cx.clone()
                    };
                    out.push(Node::AtRoot {
                        query: query.clone(),
                        sel: None,
                        body: fix_body(body, &inner, depth_left - 1),
                    });
                }
            }
        }
    }
    out.truncate(MAX_WIDTH);
    out
}

/// Repair a free-form tree so that it lies in the domain (see `C04::rule`). Idempotent.
pub fn sanitize(t: &Tree, keep_deep_at_root: bool) -> Tree {
    let cx = Cx {
        has_parent_sel: false,
        parent_size: 1,
        style_in_effect: false,
        bare_unknown: false,
        bare_container: false,
        at_root_body_no_style: false,
        media_on_path: false,
        at_rules_above: 0,
        keep_deep_at_root,
    };
    Tree(fix_body(&t.0, &cx, MAX_DEPTH))
}

/// A tree is in the domain iff the repair leaves it unchanged.
pub fn in_domain(t: &Tree) -> bool {
    sanitize(t, true) == *t && well_formed(t)
}

fn well_formed(t: &Tree) -> bool {
    fn ident_ok(s: &str) -> bool {
        !s.is_empty() && s.chars().all(|c| c.is_ascii_alphanumeric() || c == '-' || c == '_')
    }
    fn sel_ok(s: &SelList) -> bool {
        !s.0.is_empty()
            && s.0.len() <= 3
            && s.0.iter().all(|c| {
                c.lead != Some(Comb::Desc)
                    && c.rest.len() <= 2
                    && c.compounds().all(|k| {
                        (k.amp.is_some() || !k.simples.is_empty())
                            && k.amp.as_ref().map(|s| s.is_empty() || ident_ok(s)).unwrap_or(true)
                            && k.simples.iter().enumerate().all(|(i, s)| {
                                let body = s.trim_start_matches(|c| c == '.' || c == ':');
                                let prefixed = s.starts_with('.') || s.starts_with(':');
                                ident_ok(body) && (prefixed || (i == 0 && k.amp.is_none()))
                            })
                    })
            })
    }
    fn nested_ok(n: &Node, level: usize) -> bool {
        match n {
            Node::Decl { prop, value } => ident_ok(prop) && ident_ok(value),
            Node::Nested { name, value, children } => {
                level < 2
                    && ident_ok(name)
                    && value.as_ref().map(|v| ident_ok(v)).unwrap_or(true)
                    && !children.is_empty()
                    && children.iter().all(|c| nested_ok(c, level + 1))
            }
            _ => false,
        }
    }
    fn node_ok(n: &Node) -> bool {
        match n {
            Node::Decl { .. } | Node::Nested { .. } => nested_ok(n, 0),
            Node::Rule { sel, body } => sel_ok(sel) && body.iter().all(node_ok),
            Node::Media { query, body } => MEDIA.contains(&query.as_str()) && body.iter().all(node_ok),
            Node::Supports { cond, body } => {
                (SUPPORTS.contains(&cond.as_str()) || cond == "(m: n)") && body.iter().all(node_ok)
            }
            Node::Unknown { name, params, body } => {
                UNKNOWN.contains(&name.as_str())
                    && (params.is_empty() || ident_ok(params))
                    && body.as_ref().map(|b| b.iter().all(node_ok)).unwrap_or(true)
            }
            Node::AtRoot { query, sel, body } => {
                !(query.is_some() && sel.is_some())
                    && sel.as_ref().map(sel_ok).unwrap_or(true)
                    && query
                        .as_ref()
                        .map(|q| !q.names.is_empty() && q.names.iter().all(|n| ident_ok(n)))
                        .unwrap_or(true)
                    && body.iter().all(node_ok)
            }
        }
    }
    t.0.iter().all(node_ok)
}

// ------------------------------------------------------------------------------------------------
// renumbering: every declaration value (and childless at-rule parameter) becomes `v<k>` in source
// order, so that every output row is identifiable

pub fn renumber(t: &Tree) -> Tree {
    fn go(n: &mut Node, k: &mut usize) {
        let mut next = || {
            let s = format!("v{}", *k);
            *k += 1;
            s
        };
        match n {
            Node::Decl { value, .. } => *value = next(),
            Node::Nested { value, children, .. } => {
                if let Some(v) = value {
                    *v = next();
                }
                for c in children {
                    go(c, k);
                }
            }
            Node::Unknown { params, body: None, .. } => *params = next(),
            Node::Rule { body, .. }
            | Node::Media { body, .. }
            | Node::Supports { body, .. }
            | Node::AtRoot { body, .. }
            | Node::Unknown { body: Some(body), .. } => {
                for c in body {
                    go(c, k);
                }
            }
        }
    }
    let mut t = t.clone();
    let mut k = 0;
    for n in &mut t.0 {
        go(n, &mut k);
    }
    t
}

// ------------------------------------------------------------------------------------------------
// printers

pub fn compound_text(c: &Compound) -> String {
    let mut s = String::new();
    if let Some(suf) = &c.amp {
        s.push('&');
        s.push_str(suf);
    }
    for x in &c.simples {
        s.push_str(x);
    }
    s
}

pub fn complex_text(c: &Complex) -> String {
    let mut parts: Vec<String> = vec![];
    if let Some(l) = c.lead {
        parts.push(l.symbol().to_string());
    }
    parts.push(compound_text(&c.first));
    for (k, x) in &c.rest {
        if *k != Comb::Desc {
            parts.push(k.symbol().to_string());
        }
        parts.push(compound_text(x));
    }
    parts.join(" ")
}

pub fn sel_text(s: &SelList) -> String {
    s.0.iter().map(complex_text).collect::<Vec<_>>().join(", ")
}

pub fn query_text(q: &Query) -> String {
    format!("({}: {})", if q.with { "with" } else { "without" }, q.names.join(" "))
}

fn header(n: &Node) -> String {
    match n {
        Node::Rule { sel, .. } => sel_text(sel),
        Node::Media { query, .. } => format!("@media {}", query),
        Node::Supports { cond, .. } => format!("@supports {}", cond),
        Node::Unknown { name, params, .. } => {
            if params.is_empty() {
                format!("@{}", name)
            } else {
                format!("@{} {}", name, params)
            }
        }
        Node::AtRoot { query, sel, .. } => match (query, sel) {
            (Some(q), _) => format!("@at-root {}", query_text(q)),
            (None, Some(s)) => format!("@at-root {}", sel_text(s)),
            (None, None) => "@at-root".to_string(),
        },
        Node::Decl { prop, value } => format!("{}: {}", prop, value),
        Node::Nested { name, value, .. } => match value {
            Some(v) => format!("{}: {}", name, v),
            None => format!("{}:", name),
        },
    }
}

fn children(n: &Node) -> Option<&Vec<Node>> {
    match n {
        Node::Decl { .. } => None,
        Node::Nested { children, .. } => Some(children),
        Node::Rule { body, .. } | Node::Media { body, .. } | Node::Supports { body, .. } | Node::AtRoot { body, .. } => {
            Some(body)
        }
        Node::Unknown { body, .. } => body.as_ref(),
    }
}

/// SCSS text (two-space indentation, one statement per line).
pub fn print_scss(t: &Tree) -> String {
    fn go(n: &Node, ind: usize, out: &mut String) {
        let pad = "  ".repeat(ind);
        match children(n) {
            None => {
                out.push_str(&format!("{}{};\n", pad, header(n)));
            }
            Some(ch) => {
                out.push_str(&format!("{}{} {{\n", pad, header(n)));
                for c in ch {
                    go(c, ind + 1, out);
                }
                out.push_str(&format!("{}}}\n", pad));
            }
        }
    }
    let mut out = String::new();
    for n in &t.0 {
        go(n, 0, &mut out);
    }
    out
}

/// The indented syntax has no spelling for an unknown at-rule with an *empty* body (`@foo {}`):
/// without children it reads as the childless `@foo;`. `print_sass` is a faithful twin of
/// `print_scss` exactly for the trees for which this returns true (checked by hand on 300
/// generated trees: identical CSS for all 292 expressible ones, the 8 others differ only in
/// `@foo {}` vs `@foo;`).
pub fn sass_expressible(t: &Tree) -> bool {
    fn ok(n: &Node) -> bool {
        match n {
            Node::Unknown { body: Some(b), .. } => !b.is_empty() && b.iter().all(ok),
            Node::Rule { body, .. } | Node::Media { body, .. } | Node::Supports { body, .. } | Node::AtRoot { body, .. } => {
                body.iter().all(ok)
            }
            _ => true,
        }
    }
    t.0.iter().all(ok)
}

/// The same tree in the indented syntax (see `sass_expressible`).
pub fn print_sass(t: &Tree) -> String {
    fn go(n: &Node, ind: usize, out: &mut String) {
        let pad = "  ".repeat(ind);
        let mut head = header(n);
        if let Node::AtRoot { query: None, sel: None, body } = n {
            // the indented syntax reads a bare `@at-root` without children as "selector missing"
            // (dart-sass too); the default query spelled out is the same rule
            if body.is_empty() {
                head = "@at-root (without: rule)".to_string();
            }
        }
        out.push_str(&format!("{}{}\n", pad, head));
        if let Some(ch) = children(n) {
            for c in ch {
                go(c, ind + 1, out);
            }
        }
    }
    let mut out = String::new();
    for n in &t.0 {
        go(n, 0, &mut out);
    }
    out
}

// ------------------------------------------------------------------------------------------------
// shape metrics (evidence classes, non-trivial rule)

#[derive(Clone, Debug, Default, Serialize)]
pub struct Shape {
    /// deepest block nesting (a top-level rule is depth 1)
    pub depth: usize,
    pub nodes: usize,
    pub decls: usize,
    /// an at-rule with a body below a style rule
    pub bubbling: bool,
    pub at_root: usize,
    pub at_root_sel: usize,
    pub at_root_query: usize,
    /// some `@at-root` has two or more at-rules with bodies above it
    pub at_root_below_two_at_rules: bool,
    /// `&` in a compound that is not the first of its complex selector (`.a &`)
    pub amp_non_leading: bool,
    pub amp_suffix: bool,
    pub amp_repeated: bool,
    pub amp_with_simples: bool,
    pub amp_any: bool,
    pub lead_comb: bool,
    /// a rule with >= 2 complex selectors nested in a rule with >= 2 complex selectors
    pub two_list_levels: bool,
    /// a declaration after a nested rule / at-rule in the same rule body
    pub decl_after_child: bool,
    pub nested_props: bool,
    pub childless_at_rule: bool,
    pub media: bool,
    pub supports: bool,
    pub unknown_body: bool,
    pub bare_decl_in_at_rule: bool,
}

pub fn shape(t: &Tree) -> Shape {
    struct W {
        s: Shape,
    }
    fn sel(s: &SelList, w: &mut W) {
        for c in &s.0 {
            if c.lead.is_some() {
                w.s.lead_comb = true;
            }
            if c.amp_count() > 1 {
                w.s.amp_repeated = true;
            }
            for (i, k) in c.compounds().enumerate() {
                if let Some(suf) = &k.amp {
                    w.s.amp_any = true;
                    if i > 0 {
                        w.s.amp_non_leading = true;
                    }
                    if !suf.is_empty() {
                        w.s.amp_suffix = true;
                    }
                    if !k.simples.is_empty() {
                        w.s.amp_with_simples = true;
                    }
                }
            }
        }
    }
    fn body(b: &[Node], depth: usize, in_rule: bool, parent_list: usize, at_above: usize, w: &mut W) {
        let mut saw_child = false;
        for n in b {
            w.s.nodes += 1;
            match n {
                Node::Decl { .. } | Node::Nested { .. } | Node::Unknown { body: None, .. } => {
                    w.s.decls += 1;
                    if matches!(n, Node::Nested { .. }) {
                        w.s.nested_props = true;
                    }
                    if matches!(n, Node::Unknown { .. }) {
                        w.s.childless_at_rule = true;
                    }
                    if saw_child && in_rule {
                        w.s.decl_after_child = true;
                    }
                    if !in_rule && !matches!(n, Node::Unknown { .. }) {
                        w.s.bare_decl_in_at_rule = true;
                    }
                }
                Node::Rule { sel: s, body: bb } => {
                    saw_child = true;
                    w.s.depth = w.s.depth.max(depth + 1);
                    sel(s, w);
                    if parent_list >= 2 && s.0.len() >= 2 {
                        w.s.two_list_levels = true;
                    }
                    body(bb, depth + 1, true, s.0.len(), at_above, w);
                }
                Node::Media { body: bb, .. } | Node::Supports { body: bb, .. } | Node::Unknown { body: Some(bb), .. } => {
                    saw_child = true;
                    w.s.depth = w.s.depth.max(depth + 1);
                    match n {
                        Node::Media { .. } => w.s.media = true,
                        Node::Supports { .. } => w.s.supports = true,
                        _ => w.s.unknown_body = true,
                    }
                    if in_rule {
                        w.s.bubbling = true;
                    }
                    body(bb, depth + 1, in_rule, parent_list, at_above + 1, w);
                }
                Node::AtRoot { query, sel: s, body: bb } => {
                    saw_child = true;
                    w.s.depth = w.s.depth.max(depth + 1);
                    w.s.at_root += 1;
                    if at_above >= 2 {
                        w.s.at_root_below_two_at_rules = true;
                    }
                    if query.is_some() {
                        w.s.at_root_query += 1;
                    }
                    if let Some(s) = s {
                        w.s.at_root_sel += 1;
                        sel(s, w);
                        body(bb, depth + 1, true, s.0.len(), at_above, w);
                    } else {
                        let keeps = !query_excludes_rule(query);
                        body(bb, depth + 1, in_rule && keeps, if keeps { parent_list } else { 0 }, at_above, w);
                    }
                }
            }
        }
    }
    let mut w = W { s: Shape::default() };
    body(&t.0, 0, false, 0, 0, &mut w);
    w.s
}

#[cfg(test)]
mod tests {
    use super::*;
    use proptest::strategy::ValueTree;
    use proptest::test_runner::TestRunner;

    #[test]
    fn generated_trees_are_in_domain_and_sanitize_is_idempotent() {
        let mut r = TestRunner::deterministic();
        let s = tree();
        for _ in 0..2000 {
            let t = s.new_tree(&mut r).unwrap().current();
            assert!(in_domain(&t), "{}", print_scss(&t));
            assert!(shape(&t).depth <= MAX_DEPTH);
        }
    }

    /// `RULETREE_DUMP=<dir> cargo test --release dump_pairs -- --ignored` writes N.scss / N.sass twins
    /// (used once by hand to confirm that both printers compile to the same CSS)
    #[test]
    #[ignore]
    fn dump_pairs() {
        let dir = match std::env::var("RULETREE_DUMP") {
            Ok(d) => d,
            Err(_) => return,
        };
        let mut r = TestRunner::deterministic();
        let s = tree();
        for i in 0..300 {
            let t = renumber(&s.new_tree(&mut r).unwrap().current());
            std::fs::write(format!("{}/{}.scss", dir, i), print_scss(&t)).unwrap();
            std::fs::write(format!("{}/{}.sass", dir, i), print_sass(&t)).unwrap();
        }
    }

    #[test]
    fn printers() {
        let t = Tree(vec![Node::Rule {
            sel: SelList(vec![Complex {
                lead: None,
                first: Compound { amp: None, simples: vec!["a".into(), ".x".into()] },
                rest: vec![(Comb::Child, Compound { amp: None, simples: vec!["b".into()] })],
            }]),
            body: vec![
                Node::Decl { prop: "p".into(), value: "w0".into() },
                Node::Nested {
                    name: "font".into(),
                    value: None,
                    children: vec![Node::Decl { prop: "size".into(), value: "w1".into() }],
                },
            ],
        }]);
        assert_eq!(print_scss(&t), "a.x > b {\n  p: w0;\n  font: {\n    size: w1;\n  }\n}\n");
        assert_eq!(print_sass(&t), "a.x > b\n  p: w0\n  font:\n    size: w1\n");
        assert_eq!(print_scss(&renumber(&t)), "a.x > b {\n  p: v0;\n  font: {\n    size: v1;\n  }\n}\n");
    }
}

//! A decision stream: generators are written as ordinary functions that ask a `Chooser` for
//! choices; the choices come from a proptest-generated `Vec<u16>`, so every random decision stays
//! inside proptest (replayable, and shrinking towards shorter / smaller vectors yields simpler
//! structures – put the simplest alternative first). An exhausted stream answers 0.

use crate::engine::idx;
use proptest::prelude::*;

pub struct Chooser<'a> {
    data: &'a [u16],
    pos: usize,
}

impl<'a> Chooser<'a> {
    pub fn new(data: &'a [u16]) -> Self {
        Chooser { data, pos: 0 }
    }
    pub fn raw(&mut self) -> u16 {
        let v = self.data.get(self.pos).copied().unwrap_or(0);
        self.pos += 1;
        v
    }
    /// 0..n (n >= 1)
    pub fn pick(&mut self, n: usize) -> usize {
        if n <= 1 {
            self.pos += 1;
            return 0;
        }
        idx(self.raw(), n)
    }
    pub fn of<'b, T: ?Sized>(&mut self, xs: &'b [&'b T]) -> &'b T {
        xs[self.pick(xs.len())]
    }
    pub fn flag(&mut self) -> bool {
        self.pick(2) == 1
    }
    /// true with probability about num/den
    pub fn chance(&mut self, num: usize, den: usize) -> bool {
        self.pick(den) < num
    }
    pub fn range(&mut self, lo: i64, hi: i64) -> i64 {
        lo + self.pick((hi - lo + 1) as usize) as i64
    }
    pub fn exhausted(&self) -> bool {
        self.pos >= self.data.len()
    }
    pub fn used(&self) -> usize {
        self.pos
    }
}

pub fn choices(max: usize) -> impl Strategy<Value = Vec<u16>> {
    proptest::collection::vec(any::<u16>(), 0..max)
}

//! Generator and SCSS printer for calculation expressions (property C16).
//!
//! Trees are *typed by construction*: every sub-expression is generated for a target type
//! (unitless, length-like, angle, time) so that almost all cases are valid CSS calculations; a
//! small, separately weighted amount of "mischief" puts an operand of another type next to `+`/`-`
//! or into a min/max/clamp argument list (cross-dimension: must be rejected; unitless next to a
//! unit: the region of finding #19 / the legacy min-max rule).

use proptest::prelude::*;
use serde::{Deserialize, Serialize};

/// Finding #19 (`calc(1px + 1)` is accepted): while the finding is open, cases whose source has a
/// unitless and a unit-ful number as the operands of `+`/`-` in calc()/clamp() context are
/// excluded from the search (counted); set to `true` once grass rejects them, so they are asserted.
pub const ASSERT_UNITLESS_VS_UNIT_SUMS: bool = true;

#[derive(Clone, Copy, Debug, Serialize, Deserialize, PartialEq, Eq, Hash)]
pub enum U {
    None,
    Px,
    Em,
    Rem,
    Pct,
    Vw,
    In,
    Pt,
    Deg,
    Turn,
    S,
    Ms,
}

impl U {
    pub fn text(self) -> &'static str {
        match self {
            U::None => "",
            U::Px => "px",
            U::Em => "em",
            U::Rem => "rem",
            U::Pct => "%",
            U::Vw => "vw",
            U::In => "in",
            U::Pt => "pt",
            U::Deg => "deg",
            U::Turn => "turn",
            U::S => "s",
            U::Ms => "ms",
        }
    }
}

/// a number with at most three fractional digits: value = milli / 1000
#[derive(Clone, Copy, Debug, Serialize, Deserialize, PartialEq, Eq, Hash)]
pub struct N {
    pub milli: i32,
    pub u: U,
}

impl N {
    pub fn text(&self) -> String {
        let neg = self.milli < 0;
        let a = self.milli.unsigned_abs();
        let mut s = format!("{}", a / 1000);
        let f = a % 1000;
        if f != 0 {
            let mut fs = format!("{:03}", f);
            while fs.ends_with('0') {
                fs.pop();
            }
            s.push('.');
            s.push_str(&fs);
        }
        format!("{}{}{}", if neg { "-" } else { "" }, s, self.u.text())
    }
}

#[derive(Clone, Copy, Debug, Serialize, Deserialize, PartialEq, Eq, Hash)]
pub enum Op {
    Add,
    Sub,
    Mul,
    Div,
}

impl Op {
    pub fn ch(self) -> char {
        match self {
            Op::Add => '+',
            Op::Sub => '-',
            Op::Mul => '*',
            Op::Div => '/',
        }
    }
    fn prec(self) -> u8 {
        match self {
            Op::Add | Op::Sub => 1,
            _ => 2,
        }
    }
}

#[derive(Clone, Debug, Serialize, Deserialize, PartialEq, Eq, Hash)]
pub enum E {
    Num(N),
    /// `$vK` with `$vK: <number>;` declared before the rule
    Var(N),
    /// `#{$vK}`
    Interp(N),
    /// `$cK` with `$cK: <function expression>;` declared before the rule
    CalcVar(Box<E>),
    Bin {
        op: Op,
        l: Box<E>,
        r: Box<E>,
        /// `*` and `/` printed without surrounding spaces
        tight: bool,
        /// redundant parentheses around a right operand of equal precedence under `+`/`*`
        rp: bool,
    },
    Paren(Box<E>),
    Calc(Box<E>),
    Min(Vec<E>),
    Max(Vec<E>),
    Clamp(Box<E>, Box<E>, Box<E>),
}

#[derive(Clone, Debug, Serialize, Deserialize, PartialEq, Eq, Hash)]
pub struct Sheet {
    /// a function expression (calc/min/max/clamp)
    pub expr: E,
    /// `$r: EXPR; a{b: $r}` instead of `a{b: EXPR}`
    pub via_var: bool,
    pub compressed: bool,
    /// enumerated unit-triple family: only "no crash" is judged (the operands are not ordered, so the
    /// value relation is outside the domain)
    #[serde(default)]
    pub crash_only: bool,
}

/// What the printer produced: the stylesheet, the text of the expression and the variable
/// definitions (name without `$`, definition text) in declaration order.
pub struct Printed {
    pub scss: String,
    pub expr: String,
    pub defs: Vec<(String, String)>,
}

struct Pr {
    defs: Vec<(String, String)>,
    nv: usize,
    nc: usize,
}

impl Pr {
    fn expr(&mut self, e: &E) -> String {
        match e {
            E::Num(n) => n.text(),
            E::Var(n) => {
                let name = format!("v{}", self.nv);
                self.nv += 1;
                self.defs.push((name.clone(), n.text()));
                format!("${}", name)
            }
            E::Interp(n) => {
                let name = format!("v{}", self.nv);
                self.nv += 1;
                self.defs.push((name.clone(), n.text()));
                format!("#{{${}}}", name)
            }
            E::CalcVar(inner) => {
                // inner definitions first (they must be declared before use)
                let text = self.func_text(inner);
                let name = format!("c{}", self.nc);
                self.nc += 1;
                self.defs.push((name.clone(), text));
                format!("${}", name)
            }
            E::Paren(x) => format!("({})", self.expr(x)),
            E::Bin { op, l, r, tight, rp } => {
                let lp = matches!(&**l, E::Bin { op: lo, .. } if lo.prec() < op.prec());
                let rpn = match &**r {
                    E::Bin { op: ro, .. } => {
                        ro.prec() < op.prec()
                            || (ro.prec() == op.prec() && (matches!(op, Op::Sub | Op::Div) || *rp))
                    }
                    _ => false,
                };
                let ls = self.expr(l);
                let rs = self.expr(r);
                let ls = if lp { format!("({})", ls) } else { ls };
                let rs = if rpn { format!("({})", rs) } else { rs };
                if *tight && matches!(op, Op::Mul | Op::Div) {
                    format!("{}{}{}", ls, op.ch(), rs)
                } else {
                    format!("{} {} {}", ls, op.ch(), rs)
                }
            }
            E::Calc(_) | E::Min(_) | E::Max(_) | E::Clamp(..) => self.func_text(e),
        }
    }
    fn func_text(&mut self, e: &E) -> String {
        match e {
            E::Calc(x) => format!("calc({})", self.expr(x)),
            E::Min(a) => {
                let v: Vec<String> = a.iter().map(|x| self.expr(x)).collect();
                format!("min({})", v.join(", "))
            }
            E::Max(a) => {
                let v: Vec<String> = a.iter().map(|x| self.expr(x)).collect();
                format!("max({})", v.join(", "))
            }
            E::Clamp(a, b, c) => {
                let (a, b, c) = (self.expr(a), self.expr(b), self.expr(c));
                format!("clamp({}, {}, {})", a, b, c)
            }
            other => format!("calc({})", self.expr(other)),
        }
    }
}

pub fn print(sheet: &Sheet) -> Printed {
    let mut p = Pr {
        defs: vec![],
        nv: 0,
        nc: 0,
    };
    let expr = p.func_text(&sheet.expr);
    let mut scss = String::new();
    for (n, d) in &p.defs {
        scss.push_str(&format!("${}: {};\n", n, d));
    }
    if sheet.via_var {
        scss.push_str(&format!("$r: {};\na {{\n  b: $r;\n}}\n", expr));
    } else {
        scss.push_str(&format!("a {{\n  b: {};\n}}\n", expr));
    }
    Printed {
        scss,
        expr,
        defs: p.defs,
    }
}

// ------------------------------------------------------------------------------------------
// strategies
// ------------------------------------------------------------------------------------------

/// target types
const T_NUM: usize = 0;
const T_LEN: usize = 1;
const T_ANG: usize = 2;
const T_TIME: usize = 3;

fn unit_for(t: usize) -> BoxedStrategy<U> {
    match t {
        T_NUM => Just(U::None).boxed(),
        T_LEN => prop_oneof![
            6 => Just(U::Px),
            4 => Just(U::Em),
            2 => Just(U::Rem),
            3 => Just(U::Pct),
            2 => Just(U::Vw),
            2 => Just(U::In),
            1 => Just(U::Pt),
        ]
        .boxed(),
        T_ANG => prop_oneof![3 => Just(U::Deg), 1 => Just(U::Turn)].boxed(),
        _ => prop_oneof![3 => Just(U::S), 2 => Just(U::Ms)].boxed(),
    }
}

fn magnitude() -> BoxedStrategy<i32> {
    prop_oneof![
        20 => (1i32..=12).prop_map(|k| k * 1000),
        6 => prop_oneof![Just(500), Just(1500), Just(2500), Just(250), Just(750), Just(100), Just(1250), Just(333)],
        4 => prop_oneof![Just(20_000), Just(50_000), Just(100_000), Just(96_000)],
        3 => (1i32..=9999).prop_map(|k| k),
        1 => Just(0),
    ]
    .boxed()
}

fn number(t: usize) -> BoxedStrategy<N> {
    (magnitude(), prop::bool::weighted(0.2), unit_for(t))
        .prop_map(|(m, neg, u)| N {
            milli: if neg { -m } else { m },
            u,
        })
        .boxed()
}

fn leaf(t: usize) -> BoxedStrategy<E> {
    prop_oneof![
        30 => number(t).prop_map(E::Num),
        8 => number(t).prop_map(E::Var),
        1 => number(t).prop_map(E::Interp),
    ]
    .boxed()
}

fn bin(op: Op, l: E, r: E, flags: u8) -> E {
    E::Bin {
        op,
        l: Box::new(l),
        r: Box::new(r),
        tight: flags & 1 != 0,
        rp: flags & 2 != 0,
    }
}

/// `levels[d][t]`: expressions of type `t` with at most `d` nested operators/functions
fn levels(max_depth: usize) -> Vec<Vec<BoxedStrategy<E>>> {
    let mut lv: Vec<Vec<BoxedStrategy<E>>> = vec![(0..4).map(leaf).collect()];
    for d in 1..=max_depth {
        let prev = lv[d - 1].clone();
        let mut row = vec![];
        for t in 0..4 {
            let same = prev[t].clone();
            let num = prev[T_NUM].clone();
            // right operand / extra argument: mostly the same type, sometimes another one
            let other_dim = match t {
                T_NUM => prev[T_LEN].clone(),
                T_LEN => prop_oneof![prev[T_TIME].clone(), prev[T_ANG].clone()].boxed(),
                T_ANG => prop_oneof![prev[T_LEN].clone(), prev[T_TIME].clone()].boxed(),
                _ => prop_oneof![prev[T_LEN].clone(), prev[T_ANG].clone()].boxed(),
            };
            let unitless_mix = if t == T_NUM { prev[T_LEN].clone() } else { prev[T_NUM].clone() };
            let partner = prop_oneof![
                194 => same.clone(),
                3 => other_dim,
                3 => unitless_mix,
            ]
            .boxed();
            let sum = (
                same.clone(),
                prop_oneof![Just(Op::Add), Just(Op::Sub)],
                partner.clone(),
                any::<u8>(),
            )
                .prop_map(|(l, op, r, f)| bin(op, l, r, f))
                .boxed();
            let mul = if t == T_NUM {
                (num.clone(), num.clone(), any::<u8>())
                    .prop_map(|(l, r, f)| bin(Op::Mul, l, r, f))
                    .boxed()
            } else {
                (same.clone(), num.clone(), any::<bool>(), any::<u8>())
                    .prop_map(|(a, k, swap, f)| if swap { bin(Op::Mul, k, a, f) } else { bin(Op::Mul, a, k, f) })
                    .boxed()
            };
            let div = if t == T_NUM {
                // number / number, or a ratio of two quantities of one united type
                prop_oneof![
                    4 => (num.clone(), num.clone(), any::<u8>()).prop_map(|(l, r, f)| bin(Op::Div, l, r, f)),
                    1 => (prev[T_LEN].clone(), prev[T_LEN].clone(), any::<u8>()).prop_map(|(l, r, f)| bin(Op::Div, l, r, f)),
                    1 => (prev[T_TIME].clone(), prev[T_TIME].clone(), any::<u8>()).prop_map(|(l, r, f)| bin(Op::Div, l, r, f)),
                ]
                .boxed()
            } else {
                (same.clone(), num.clone(), any::<u8>())
                    .prop_map(|(l, r, f)| bin(Op::Div, l, r, f))
                    .boxed()
            };
            // products of two united quantities divided back, e.g. 2px * 3px / 1px
            let abuse = if t == T_NUM {
                mul.clone()
            } else {
                prop_oneof![
                    (same.clone(), same.clone(), same.clone(), any::<u8>()).prop_map(|(a, b, c, f)| bin(
                        Op::Div,
                        bin(Op::Mul, a, b, f >> 2),
                        c,
                        f
                    )),
                    (same.clone(), same.clone(), any::<u8>()).prop_map(|(a, b, f)| bin(Op::Mul, a, b, f)),
                ]
                .boxed()
            };
            let args = prop::collection::vec(partner.clone(), 0..3);
            let minf = (same.clone(), args.clone()).prop_map(|(a, mut v)| {
                v.insert(0, a);
                E::Min(v)
            });
            let maxf = (same.clone(), args).prop_map(|(a, mut v)| {
                v.insert(0, a);
                E::Max(v)
            });
            let clamp = prop_oneof![
                // bounds ordered by construction: a non-positive and a non-negative number
                4 => (number(t), same.clone(), number(t)).prop_map(|(lo, v, hi)| {
                    let lo = N { milli: -lo.milli.abs(), ..lo };
                    let hi = N { milli: hi.milli.abs(), ..hi };
                    E::Clamp(Box::new(E::Num(lo)), Box::new(v), Box::new(E::Num(hi)))
                }),
                // the same unit, sorted
                3 => (number(t), same.clone(), magnitude()).prop_map(|(a, v, m)| {
                    let b = N { milli: m, ..a };
                    let (lo, hi) = if a.milli <= b.milli { (a, b) } else { (b, a) };
                    E::Clamp(Box::new(E::Num(lo)), Box::new(v), Box::new(E::Num(hi)))
                }),
                // MAX = MIN + a non-negative number of the same type: ordered for any MIN
                2 => (same.clone(), same.clone(), number(t)).prop_map(|(lo, v, d)| {
                    let d = N { milli: d.milli.abs(), ..d };
                    let hi = bin(Op::Add, lo.clone(), E::Num(d), 0);
                    E::Clamp(Box::new(lo), Box::new(v), Box::new(hi))
                }),
                // arbitrary bounds: judged (and excluded when MIN > MAX) by the check
                1 => (same.clone(), partner.clone(), same.clone())
                    .prop_map(|(lo, v, hi)| E::Clamp(Box::new(lo), Box::new(v), Box::new(hi))),
            ];
            let calcvar = prop_oneof![
                (same.clone()).prop_map(|x| E::CalcVar(Box::new(E::Calc(Box::new(x))))),
                (same.clone(), same.clone()).prop_map(|(a, b)| E::CalcVar(Box::new(E::Max(vec![a, b])))),
            ];
            let s = prop_oneof![
                (if d >= 3 { 2 } else { 6 }) => leaf(t),
                12 => sum,
                6 => mul,
                5 => div,
                1 => abuse,
                2 => same.clone().prop_map(|x| E::Paren(Box::new(x))),
                2 => same.clone().prop_map(|x| E::Calc(Box::new(x))),
                3 => minf,
                3 => maxf,
                3 => clamp,
                1 => calcvar,
            ]
            .boxed();
            row.push(s);
        }
        lv.push(row);
    }
    lv
}

pub const MAX_DEPTH: usize = 4;

/// every triple of units under clamp(), min() and max(), values 1 / 2 / 3 (5 184 sheets)
pub fn unit_triples() -> Vec<Sheet> {
    let us = [U::None, U::Px, U::Em, U::Rem, U::Pct, U::Vw, U::In, U::Pt, U::Deg, U::Turn, U::S, U::Ms];
    let mut v = vec![];
    let mut i = 0usize;
    for a in us {
        for b in us {
            for c in us {
                let (x, y, z) = (E::Num(N { milli: 1000, u: a }), E::Num(N { milli: 2000, u: b }), E::Num(N { milli: 3000, u: c }));
                for k in 0..3 {
                    let expr = match k {
                        0 => E::Clamp(Box::new(x.clone()), Box::new(y.clone()), Box::new(z.clone())),
                        1 => E::Min(vec![x.clone(), y.clone(), z.clone()]),
                        _ => E::Max(vec![x.clone(), y.clone(), z.clone()]),
                    };
                    v.push(Sheet { expr, via_var: i % 5 == 0, compressed: i % 7 == 0, crash_only: true });
                    i += 1;
                }
            }
        }
    }
    v
}

pub fn sheet() -> BoxedStrategy<Sheet> {
    let lv = levels(MAX_DEPTH);
    let tops: Vec<BoxedStrategy<E>> = (0..4)
        .map(|t| {
            let body = prop_oneof![1 => lv[2][t].clone(), 2 => lv[3][t].clone(), 3 => lv[4][t].clone()].boxed();
            let partner = prop_oneof![
                195 => lv[3][t].clone(),
                3 => lv[2][if t == T_TIME { T_LEN } else { T_TIME }].clone(),
                2 => lv[2][if t == T_NUM { T_LEN } else { T_NUM }].clone(),
            ]
            .boxed();
            prop_oneof![
                10 => body.clone().prop_map(|x| E::Calc(Box::new(x))),
                2 => (lv[3][t].clone(), prop::collection::vec(partner.clone(), 0..3)).prop_map(|(a, mut v)| {
                    v.insert(0, a);
                    E::Min(v)
                }),
                2 => (lv[3][t].clone(), prop::collection::vec(partner.clone(), 0..3)).prop_map(|(a, mut v)| {
                    v.insert(0, a);
                    E::Max(v)
                }),
                2 => (number(t), lv[3][t].clone(), number(t)).prop_map(|(lo, v, hi)| {
                    let lo = N { milli: -lo.milli.abs(), ..lo };
                    let hi = N { milli: hi.milli.abs(), ..hi };
                    E::Clamp(Box::new(E::Num(lo)), Box::new(v), Box::new(E::Num(hi)))
                }),
                1 => (lv[2][t].clone(), partner, lv[2][t].clone())
                    .prop_map(|(lo, v, hi)| E::Clamp(Box::new(lo), Box::new(v), Box::new(hi))),
            ]
            .boxed()
        })
        .collect();
    let expr = prop_oneof![
        2 => tops[T_NUM].clone(),
        6 => tops[T_LEN].clone(),
        1 => tops[T_ANG].clone(),
        1 => tops[T_TIME].clone(),
    ];
    (expr, prop::bool::weighted(0.15), prop::bool::weighted(0.25))
        .prop_map(|(expr, via_var, compressed)| Sheet {
            crash_only: false,
            expr,
            via_var,
            compressed,
        })
        .boxed()
}

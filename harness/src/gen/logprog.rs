//! Programs whose only interesting behaviour is what they send to the Logger (C19): @debug / @warn /
//! @error inside loops, conditionals, mixins, functions, content blocks and imported files. The
//! generator evaluates the program itself while printing it (integers only, bounds by
//! construction), so the expected (kind, file, line, message) sequence comes with the source.

use super::chooser::Chooser;
use serde::{Deserialize, Serialize};

#[derive(Clone, Debug, Serialize, Deserialize, PartialEq)]
pub struct Log {
    pub kind: String,
    pub file: String,
    /// 0-based
    pub line: usize,
    pub message: String,
}

#[derive(Clone, Debug, Serialize, Deserialize)]
pub struct LogProgram {
    /// (path, text); the first is the entry
    pub files: Vec<(String, String)>,
    pub expected: Vec<Log>,
    /// Some(inspect text) when the program ends in @error
    pub error: Option<String>,
    pub features: Vec<String>,
}

struct File {
    name: String,
    lines: Vec<String>,
}

/// statements are generated and "executed" at the same time: `emit` appends source lines,
/// `log` records what an execution of the directive on that line delivers.
struct G<'a, 'b> {
    c: &'a mut Chooser<'b>,
    budget: usize,
}

/// a message expression over one integer variable: source text and evaluator
#[derive(Clone)]
enum Msg {
    Lit(String),
    UnquotedLit(String),
    Var,
    Interp(String),
    Arith(i64, i64),
    Pair,
    Bool,
    /// a slash-separated number literal `a/b`: it is text, not a division, wherever it is reported
    Slash(i64, i64),
}

impl Msg {
    fn src(&self, var: &str) -> String {
        match self {
            Msg::Lit(s) => format!("\"{}\"", s),
            Msg::UnquotedLit(s) => s.clone(),
            Msg::Var => format!("${}", var),
            Msg::Interp(p) => format!("\"{}#{{${}}}\"", p, var),
            Msg::Arith(k, d) => format!("${} * {} + {}", var, k, d),
            Msg::Pair => format!("${} (${} + 1)", var, var),
            Msg::Bool => format!("${} > 1", var),
            Msg::Slash(a, b) => format!("{}/{}", a, b),
        }
    }
    /// text delivered by @debug / @warn
    fn text(&self, v: i64) -> String {
        match self {
            Msg::Lit(s) | Msg::UnquotedLit(s) => s.clone(),
            Msg::Var => v.to_string(),
            Msg::Interp(p) => format!("{}{}", p, v),
            Msg::Arith(k, d) => (v * k + d).to_string(),
            Msg::Pair => format!("{} {}", v, v + 1),
            Msg::Bool => (v > 1).to_string(),
            Msg::Slash(a, b) => format!("{}/{}", a, b),
        }
    }
    /// text reported by @error (= inspect)
    fn inspect(&self, v: i64) -> String {
        match self {
            Msg::Lit(s) => format!("\"{}\"", s),
            Msg::Interp(p) => format!("\"{}{}\"", p, v),
            _ => self.text(v),
        }
    }
}

#[derive(Clone)]
enum Body {
    Log { warn: bool, msg: Msg },
    /// `@for $j from a through b { .. }` (ascending, a..=b)
    For { from: i64, to: i64, through: bool, body: Vec<Body> },
    Each { items: Vec<i64>, body: Vec<Body> },
    If { modulo: i64, then: Vec<Body>, els: Vec<Body> },
    While { n: i64, body: Vec<Body> },
    Rule { body: Vec<Body> },
    /// call helper mixin k with the current value + d
    Include { k: usize, d: i64 },
    /// `x: f<k>($v + d)`
    Call { k: usize, d: i64 },
    /// `@include c<k> { body }` – content block run `times` times in the caller's scope
    Content { k: usize, body: Vec<Body> },
    Error { msg: Msg },
    /// `@include meta.load-css("lc", $with: (k: 1))`: grass warns that $with is unsupported – a
    /// warning that does not come from @warn; with `quiet` it must stay silent too
    LoadCss,
}

impl<'a, 'b> G<'a, 'b> {
    fn msg(&mut self) -> Msg {
        match self.c.pick(10) {
            9 => Msg::Slash(self.c.range(1, 12), self.c.range(2, 9)),
            0 => Msg::Lit(self.c.of(&["hello", "a b", "é", "x:y", "50%", "it's"]).to_string()),
            1 => Msg::Var,
            2 => Msg::Interp(self.c.of(&["i=", "step ", "", "n-"]).to_string()),
            3 => Msg::Arith(self.c.range(1, 3), self.c.range(0, 4)),
            4 => Msg::Pair,
            5 => Msg::UnquotedLit(self.c.of(&["plain", "a-b", "red"]).to_string()),
            6 => Msg::Bool,
            _ => Msg::Var,
        }
    }
    fn body(&mut self, depth: usize, in_callable: bool, allow_rule: bool) -> Vec<Body> {
        let n = 1 + self.c.pick(3);
        let mut v = vec![];
        for _ in 0..n {
            if self.budget == 0 {
                break;
            }
            self.budget -= 1;
            let k = if depth >= 3 { self.c.pick(3) } else { self.c.pick(15) };
            v.push(match k {
                0 | 1 => Body::Log { warn: false, msg: self.msg() },
                2 => Body::Log { warn: true, msg: self.msg() },
                3 => {
                    let from = self.c.range(0, 2);
                    let len = self.c.range(0, 3);
                    Body::For { from, to: from + len, through: self.c.flag(), body: self.body(depth + 1, in_callable, allow_rule) }
                }
                4 => {
                    let n = self.c.range(1, 3) as usize;
                    let items = (0..n).map(|_| self.c.range(0, 9)).collect();
                    Body::Each { items, body: self.body(depth + 1, in_callable, allow_rule) }
                }
                5 => Body::If { modulo: self.c.range(2, 3), then: self.body(depth + 1, in_callable, allow_rule), els: if self.c.flag() { self.body(depth + 1, in_callable, allow_rule) } else { vec![] } },
                6 => Body::While { n: self.c.range(1, 3), body: self.body(depth + 1, in_callable, allow_rule) },
                7 if allow_rule => Body::Rule { body: self.body(depth + 1, in_callable, allow_rule) },
                8 if !in_callable => Body::Include { k: self.c.pick(2), d: self.c.range(0, 2) },
                9 if !in_callable => Body::Call { k: self.c.pick(2), d: self.c.range(0, 2) },
                10 if !in_callable => Body::Content { k: self.c.pick(2), body: self.body(depth + 1, true, allow_rule) },
                11 if depth == 0 && !in_callable && self.c.chance(1, 4) => Body::Error { msg: self.msg() },
                11 if depth == 0 && !in_callable => Body::LoadCss,
                12 if !in_callable => Body::Include { k: self.c.pick(2), d: self.c.range(0, 2) },
                13 if !in_callable => Body::Call { k: self.c.pick(2), d: self.c.range(0, 2) },
                14 if !in_callable => Body::Content { k: self.c.pick(2), body: self.body(depth + 1, true, allow_rule) },
                _ => Body::Log { warn: self.c.chance(1, 3), msg: self.msg() },
            });
        }
        v
    }
}

/// helper callables, fixed shapes parametrised by the generator
struct Helpers {
    /// mixin m<k>($a): body statements over $a
    mixins: Vec<Vec<Body>>,
    /// function f<k>($a): body statements, then `@return $a`
    functions: Vec<Vec<Body>>,
    /// mixin c<k>: runs @content `times` times
    content_times: Vec<i64>,
}

struct Printer {
    files: Vec<File>,
    cur: usize,
    uses_load_css: bool,
    /// where each Log body node of a *definition* was printed: (node address) -> (file, line)
    expected: Vec<Log>,
    error: Option<String>,
    counter: usize,
}

impl Printer {
    fn emit(&mut self, ind: usize, s: &str) -> usize {
        let f = &mut self.files[self.cur];
        f.lines.push(format!("{}{}", "  ".repeat(ind), s));
        f.lines.len() - 1
    }
}

/// Print `body` with variable `var` and record, for every Log node, the line it was printed on.
/// Returns a parallel structure of printed lines so that execution can be replayed separately
/// (a mixin body is printed once but executed many times).
#[derive(Clone)]
enum Printed {
    Log { warn: bool, msg: Msg, file: String, line: usize, var: String },
    For { from: i64, to: i64, through: bool, var: String, body: Vec<Printed> },
    Each { items: Vec<i64>, var: String, body: Vec<Printed> },
    If { modulo: i64, var: String, then: Vec<Printed>, els: Vec<Printed> },
    While { n: i64, body: Vec<Printed>, var: String },
    Rule { body: Vec<Printed> },
    Include { k: usize, d: i64, var: String },
    Call { k: usize, d: i64, var: String },
    Content { k: usize, body: Vec<Printed> },
    Error { msg: Msg, var: String },
    LoadCss { file: String, line: usize },
}

fn print_body(p: &mut Printer, body: &[Body], ind: usize, var: &str, in_rule: bool) -> Vec<Printed> {
    let mut out = vec![];
    for b in body {
        match b {
            Body::Log { warn, msg } => {
                let line = p.emit(ind, &format!("@{} {};", if *warn { "warn" } else { "debug" }, msg.src(var)));
                out.push(Printed::Log { warn: *warn, msg: msg.clone(), file: p.files[p.cur].name.clone(), line, var: var.to_string() });
            }
            Body::For { from, to, through, body } => {
                p.counter += 1;
                let v = format!("j{}", p.counter);
                p.emit(ind, &format!("@for ${} from {} {} {} {{", v, from, if *through { "through" } else { "to" }, to));
                let b = print_body(p, body, ind + 1, &v, in_rule);
                p.emit(ind, "}");
                out.push(Printed::For { from: *from, to: *to, through: *through, var: v, body: b });
            }
            Body::Each { items, body } => {
                p.counter += 1;
                let v = format!("e{}", p.counter);
                p.emit(ind, &format!("@each ${} in {} {{", v, items.iter().map(|i| i.to_string()).collect::<Vec<_>>().join(", ")));
                let b = print_body(p, body, ind + 1, &v, in_rule);
                p.emit(ind, "}");
                out.push(Printed::Each { items: items.clone(), var: v, body: b });
            }
            Body::If { modulo, then, els } => {
                p.emit(ind, &format!("@if ${} % {} == 0 {{", var, modulo));
                let t = print_body(p, then, ind + 1, var, in_rule);
                let e = if els.is_empty() {
                    p.emit(ind, "}");
                    vec![]
                } else {
                    p.emit(ind, "} @else {");
                    let e = print_body(p, els, ind + 1, var, in_rule);
                    p.emit(ind, "}");
                    e
                };
                out.push(Printed::If { modulo: *modulo, var: var.to_string(), then: t, els: e });
            }
            Body::While { n, body } => {
                p.counter += 1;
                let w = format!("w{}", p.counter);
                p.emit(ind, &format!("${}: {};", w, n));
                p.emit(ind, &format!("@while ${} > 0 {{", w));
                let b = print_body(p, body, ind + 1, &w, in_rule);
                p.emit(ind + 1, &format!("${}: ${} - 1;", w, w));
                p.emit(ind, "}");
                out.push(Printed::While { n: *n, body: b, var: w });
            }
            Body::Rule { body } => {
                p.counter += 1;
                p.emit(ind, &format!(".r{} {{", p.counter));
                let b = print_body(p, body, ind + 1, var, true);
                p.emit(ind + 1, "k: v;");
                p.emit(ind, "}");
                out.push(Printed::Rule { body: b });
            }
            Body::Include { k, d } => {
                p.emit(ind, &format!("@include m{}(${} + {});", k, var, d));
                out.push(Printed::Include { k: *k, d: *d, var: var.to_string() });
            }
            Body::Call { k, d } => {
                if in_rule {
                    p.emit(ind, &format!("x: f{}(${} + {});", k, var, d));
                } else {
                    p.counter += 1;
                    p.emit(ind, &format!("$t{}: f{}(${} + {});", p.counter, k, var, d));
                }
                out.push(Printed::Call { k: *k, d: *d, var: var.to_string() });
            }
            Body::Content { k, body } => {
                p.emit(ind, &format!("@include c{} {{", k));
                let b = print_body(p, body, ind + 1, var, in_rule);
                p.emit(ind, "}");
                out.push(Printed::Content { k: *k, body: b });
            }
            Body::Error { msg } => {
                p.emit(ind, &format!("@error {};", msg.src(var)));
                out.push(Printed::Error { msg: msg.clone(), var: var.to_string() });
            }
            Body::LoadCss => {
                let line = p.emit(ind, "@include meta.load-css(\"lc\", $with: (k: 1));");
                p.uses_load_css = true;
                out.push(Printed::LoadCss { file: p.files[p.cur].name.clone(), line });
            }
        }
    }
    out
}

/// wildcard message of an expected Logger call
pub const ANY_MESSAGE: &str = "\u{0}any message";

struct Exec<'a> {
    lc_name: String,
    mixins: &'a [Vec<Printed>],
    functions: &'a [Vec<Printed>],
    content_times: &'a [i64],
    out: Vec<Log>,
    error: Option<String>,
    steps: usize,
}

impl<'a> Exec<'a> {
    /// env: variable name -> value (a small association list; inner scopes shadow by name, and the
    /// generator never assigns except the @while counter, which is local to this walk)
    fn run(&mut self, body: &[Printed], env: &mut Vec<(String, i64)>) {
        for b in body {
            if self.error.is_some() || self.steps > 20_000 {
                return;
            }
            self.steps += 1;
            let get = |env: &Vec<(String, i64)>, v: &str| env.iter().rev().find(|(n, _)| n == v).map(|x| x.1).unwrap_or(0);
            match b {
                Printed::Log { warn, msg, file, line, var } => {
                    let v = get(env, var);
                    self.out.push(Log { kind: if *warn { "warn".into() } else { "debug".into() }, file: file.clone(), line: *line, message: msg.text(v) });
                }
                Printed::For { from, to, through, var, body } => {
                    let end = if *through { *to } else { *to - 1 };
                    let mut i = *from;
                    while i <= end {
                        env.push((var.clone(), i));
                        self.run(body, env);
                        env.pop();
                        i += 1;
                    }
                }
                Printed::Each { items, var, body } => {
                    for i in items {
                        env.push((var.clone(), *i));
                        self.run(body, env);
                        env.pop();
                    }
                }
                Printed::If { modulo, var, then, els } => {
                    let v = get(env, var);
                    if v % modulo == 0 {
                        self.run(then, env);
                    } else {
                        self.run(els, env);
                    }
                }
                Printed::While { n, body, var } => {
                    let mut w = *n;
                    while w > 0 {
                        env.push((var.clone(), w));
                        self.run(body, env);
                        env.pop();
                        w -= 1;
                    }
                }
                Printed::Rule { body } => self.run(body, env),
                Printed::Include { k, d, var } => {
                    let v = get(env, var) + d;
                    let mut e2 = vec![("a".to_string(), v)];
                    let m = self.mixins[*k].clone();
                    self.run(&m, &mut e2);
                }
                Printed::Call { k, d, var } => {
                    let v = get(env, var) + d;
                    let mut e2 = vec![("a".to_string(), v)];
                    let f = self.functions[*k].clone();
                    self.run(&f, &mut e2);
                }
                Printed::Content { k, body } => {
                    for _ in 0..self.content_times[*k] {
                        self.run(body, env);
                    }
                }
                Printed::Error { msg, var } => {
                    self.error = Some(msg.inspect(get(env, var)));
                }
                Printed::LoadCss { file, line } => {
                    // the text of this warning is the implementation's own: any message is accepted
                    self.out.push(Log { kind: "warn".into(), file: file.clone(), line: *line, message: ANY_MESSAGE.into() });
                    // the loaded file runs one @debug at load time
                    self.out.push(Log { kind: "debug".into(), file: self.lc_name.clone(), line: 1, message: "lc loaded".into() });
                }
            }
        }
    }
}

pub fn gen_log_program(c: &mut Chooser) -> LogProgram {
    let mut g = G { c, budget: 10 };
    // the main body first, so that calls into the helpers are common; then the helper definitions
    // (only logs and control flow inside; no further calls), each with its own small budget
    let main = g.body(0, false, true);
    let mut helper = |g: &mut G, depth: usize, rule: bool| {
        g.budget = 3;
        g.body(depth, true, rule)
    };
    let helpers = Helpers {
        mixins: vec![helper(&mut g, 1, true), helper(&mut g, 1, true)],
        functions: vec![helper(&mut g, 2, false), helper(&mut g, 2, false)],
        content_times: vec![g.c.range(1, 2), g.c.range(1, 3)],
    };
    let with_import = g.c.chance(1, 2);
    let import_body = if with_import { helper(&mut g, 1, true) } else { vec![] };
    let import_kind = g.c.pick(3);

    let entry_name = g.c.of(&["entry.scss", "src/main.scss"]).to_string();
    let dir = entry_name.rsplit_once('/').map(|(d, _)| format!("{}/", d)).unwrap_or_default();
    let part_name = format!("{}_part.scss", dir);
    let mut p = Printer { files: vec![File { name: entry_name.clone(), lines: vec![] }, File { name: part_name.clone(), lines: vec![] }], cur: 0, uses_load_css: false, expected: vec![], error: None, counter: 0 };
    p.emit(0, "$v: 2;");
    let uses_lc = main.iter().any(|b| matches!(b, Body::LoadCss));
    if uses_lc {
        p.emit(0, "@use \"sass:meta\";");
    }
    // @use must precede every rule except variable declarations; @import is written after the definitions
    if with_import && import_kind != 0 {
        p.emit(0, if import_kind == 1 { "@use \"part\";" } else { "@use \"part\" as q;" });
    }
    let mut pm = vec![];
    for (k, m) in helpers.mixins.iter().enumerate() {
        p.emit(0, &format!("@mixin m{}($a) {{", k));
        pm.push(print_body(&mut p, m, 1, "a", false));
        p.emit(0, "}");
    }
    let mut pf = vec![];
    for (k, f) in helpers.functions.iter().enumerate() {
        p.emit(0, &format!("@function f{}($a) {{", k));
        pf.push(print_body(&mut p, f, 1, "a", false));
        p.emit(1, "@return $a;");
        p.emit(0, "}");
    }
    for (k, t) in helpers.content_times.iter().enumerate() {
        p.emit(0, &format!("@mixin c{} {{", k));
        for _ in 0..*t {
            p.emit(1, "@content;");
        }
        p.emit(0, "}");
    }
    // the imported file: top-level statements over its own variable
    let mut printed_import = vec![];
    if with_import {
        p.cur = 1;
        p.emit(0, "$p: 3;");
        printed_import = print_body(&mut p, &import_body, 0, "p", false);
        p.cur = 0;
        if import_kind == 0 {
            p.emit(0, "@import \"part\";");
        }
    }
    let printed_main = print_body(&mut p, &main, 0, "v", false);

    let lc_name = format!("{}_lc.scss", dir);
    let mut ex = Exec { lc_name: lc_name.clone(), mixins: &pm, functions: &pf, content_times: &helpers.content_times, out: vec![], error: None, steps: 0 };
    if with_import {
        ex.run(&printed_import, &mut vec![("p".to_string(), 3)]);
    }
    ex.run(&printed_main, &mut vec![("v".to_string(), 2)]);

    let mut feats = vec![];
    fn walk(b: &[Body], f: &mut Vec<String>, inside: &str) {
        for x in b {
            let mut add = |s: &str| {
                if !f.iter().any(|y| y == s) {
                    f.push(s.to_string())
                }
            };
            match x {
                Body::Log { warn, .. } => add(&format!("{}-in-{}", if *warn { "warn" } else { "debug" }, inside)),
                Body::For { body, .. } | Body::Each { body, .. } | Body::While { body, .. } => walk(body, f, "loop"),
                Body::If { then, els, .. } => {
                    walk(then, f, inside);
                    walk(els, f, inside);
                }
                Body::Rule { body } => walk(body, f, inside),
                Body::Include { .. } => add("include"),
                Body::Call { .. } => add("function-call"),
                Body::Content { body, .. } => {
                    add("content-block");
                    walk(body, f, "content")
                }
                Body::Error { .. } => add("error"),
                Body::LoadCss => add("load-css-with-warning"),
            }
        }
    }
    walk(&main, &mut feats, "top");
    for m in &helpers.mixins {
        walk(m, &mut feats, "mixin");
    }
    for m in &helpers.functions {
        walk(m, &mut feats, "function");
    }
    if with_import {
        feats.push(format!("imported-file:{}", import_kind));
        walk(&import_body, &mut feats, "imported");
    }
    let steps_exceeded = ex.steps > 20_000;
    if steps_exceeded {
        feats.push("steps-exceeded".into());
    }
    let mut files: Vec<(String, String)> = vec![(entry_name, p.files[0].lines.join("\n") + "\n")];
    if with_import {
        files.push((part_name, p.files[1].lines.join("\n") + "\n"));
    }
    if uses_lc {
        files.push((lc_name, "$k: 0 !default;\n@debug \"lc loaded\";\n.lc {\n  k: $k;\n}\n".to_string()));
    }
    LogProgram { files, expected: ex.out, error: ex.error, features: feats }
}

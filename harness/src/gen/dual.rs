//! A small statement tree with two independent printers (SCSS and indented Sass) for C18: rules,
//! declarations, variables, silent and loud comments (also consecutive ones), @if/@else, @each,
//! mixins with @include, @media. Every tree is valid in both syntaxes by construction.

use super::chooser::Chooser;
use serde::{Deserialize, Serialize};

#[derive(Clone, Debug, Serialize, Deserialize)]
pub enum D {
    Rule(String, Vec<D>),
    /// a selector list written over several lines in the indented syntax; the u8 picks what follows
    /// each line-ending comma there (nothing, blanks, a tab, a silent comment)
    RuleLines(Vec<String>, u8, Vec<D>),
    Decl(String, String),
    Silent(String),
    Loud(String),
    Var(String, String),
    If(bool, Vec<D>, Option<Vec<D>>),
    Each(Vec<i64>, Vec<D>),
    Include(usize),
    Media(String, Vec<D>),
}

#[derive(Clone, Debug, Serialize, Deserialize)]
pub struct Doc {
    /// bodies of `@mixin m<k>` (declarations / comments only)
    pub mixins: Vec<Vec<D>>,
    pub items: Vec<D>,
}

const SELS: &[&str] = &["a", ".b", "#c", "a > b", "&:hover", "& + &", ".x &", "a, b", "&-s", "ul li"];
const PROPS: &[&str] = &["color", "margin", "width", "content", "x"];
const VALS: &[&str] = &["red", "1px 2px", "$v", "\"s\"", "1 + 2", "10px -2px", "a, b", "#{$v}px", "nth(1 2 3, 2)", "1px - 3px"];
const TEXTS: &[&str] = &["note", "a b c", "x: y", "{ }", "keep", "é", "a;b"];

fn body(c: &mut Chooser, depth: usize, in_rule: bool, nmix: usize) -> Vec<D> {
    let n = 1 + c.pick(4);
    let mut v = vec![];
    for _ in 0..n {
        let k = c.pick(if depth >= 3 { 5 } else { 11 });
        v.push(match k {
            0 | 1 if in_rule => D::Decl(c.of(PROPS).to_string(), c.of(VALS).to_string()),
            2 => D::Silent(c.of(TEXTS).to_string()),
            3 => D::Loud(c.of(TEXTS).to_string()),
            4 => D::Var(format!("w{}", c.pick(3)), c.of(&["1", "2px", "a"]).to_string()),
            5 if c.pick(3) == 0 => {
                let n = 2 + c.pick(2);
                let parts: Vec<String> = (0..n).map(|_| if in_rule { c.of(&["a", ".b", "&:hover", ".x &", "&-s", "ul li", "a > b"]).to_string() } else { c.of(&["a", ".b", "#c", "a > b", "ul li"]).to_string() }).collect();
                let k = c.pick(6) as u8;
                D::RuleLines(parts, k, body(c, depth + 1, true, nmix))
            }
            5 => {
                let sel = if in_rule { c.of(SELS).to_string() } else { c.of(&["a", ".b", "#c", "a > b", "a, b", "ul li"]).to_string() };
                D::Rule(sel, body(c, depth + 1, true, nmix))
            }
            6 => D::If(c.flag(), body(c, depth + 1, in_rule, nmix), if c.flag() { Some(body(c, depth + 1, in_rule, nmix)) } else { None }),
            7 => D::Each((0..1 + c.pick(2)).map(|i| i as i64).collect(), body(c, depth + 1, in_rule, nmix)),
            8 if in_rule && nmix > 0 => D::Include(c.pick(nmix)),
            9 => D::Media(c.of(&["screen", "(min-width: 1px)", "print and (color)"]).to_string(), body(c, depth + 1, in_rule, nmix)),
            _ => {
                if in_rule {
                    D::Decl(c.of(PROPS).to_string(), c.of(VALS).to_string())
                } else {
                    D::Rule(c.of(&["a", ".b", "ul li"]).to_string(), body(c, depth + 1, true, nmix))
                }
            }
        });
    }
    v
}

pub fn gen_doc(c: &mut Chooser) -> Doc {
    let nmix = c.pick(3);
    let mixins = (0..nmix)
        .map(|_| {
            let n = 1 + c.pick(3);
            (0..n)
                .map(|_| match c.pick(4) {
                    0 => D::Silent(c.of(TEXTS).to_string()),
                    1 => D::Loud(c.of(TEXTS).to_string()),
                    _ => D::Decl(c.of(PROPS).to_string(), c.of(&["red", "1px 2px", "\"s\"", "1 + 2"]).to_string()),
                })
                .collect()
        })
        .collect();
    Doc { mixins, items: body(c, 0, false, nmix) }
}

fn p_scss(v: &[D], ind: usize, out: &mut String) {
    let pad = "  ".repeat(ind);
    for d in v {
        match d {
            D::Rule(s, b) => {
                out.push_str(&format!("{}{} {{\n", pad, s));
                p_scss(b, ind + 1, out);
                out.push_str(&format!("{}}}\n", pad));
            }
            D::RuleLines(parts, _, b) => {
                // a line break after a comma is kept in the output, so the SCSS twin breaks its lines too
                out.push_str(&format!("{}{} {{\n", pad, parts.join(&format!(",\n{}", pad))));
                p_scss(b, ind + 1, out);
                out.push_str(&format!("{}}}\n", pad));
            }
            D::Decl(p, val) => out.push_str(&format!("{}{}: {};\n", pad, p, val)),
            D::Silent(t) => out.push_str(&format!("{}// {}\n", pad, t)),
            D::Loud(t) => out.push_str(&format!("{}/* {} */\n", pad, t)),
            D::Var(n, val) => out.push_str(&format!("{}${}: {};\n", pad, n, val)),
            D::If(c, t, e) => {
                out.push_str(&format!("{}@if {} {{\n", pad, c));
                p_scss(t, ind + 1, out);
                match e {
                    Some(e) => {
                        out.push_str(&format!("{}}} @else {{\n", pad));
                        p_scss(e, ind + 1, out);
                        out.push_str(&format!("{}}}\n", pad));
                    }
                    None => out.push_str(&format!("{}}}\n", pad)),
                }
            }
            D::Each(items, b) => {
                out.push_str(&format!("{}@each $e in {} {{\n", pad, items.iter().map(|i| i.to_string()).collect::<Vec<_>>().join(", ")));
                p_scss(b, ind + 1, out);
                out.push_str(&format!("{}}}\n", pad));
            }
            D::Include(k) => out.push_str(&format!("{}@include m{};\n", pad, k)),
            D::Media(q, b) => {
                out.push_str(&format!("{}@media {} {{\n", pad, q));
                p_scss(b, ind + 1, out);
                out.push_str(&format!("{}}}\n", pad));
            }
        }
    }
}

fn p_sass(v: &[D], ind: usize, out: &mut String) {
    let pad = "  ".repeat(ind);
    for d in v {
        match d {
            D::Rule(s, b) => {
                out.push_str(&format!("{}{}\n", pad, s));
                p_sass(b, ind + 1, out);
            }
            D::RuleLines(parts, k, b) => {
                let trail = ["", " ", "\t", "  ", " // note", " // a, b"][*k as usize % 6];
                for (i, part) in parts.iter().enumerate() {
                    if i + 1 < parts.len() {
                        out.push_str(&format!("{}{},{}\n", pad, part, trail));
                    } else {
                        out.push_str(&format!("{}{}\n", pad, part));
                    }
                }
                p_sass(b, ind + 1, out);
            }
            D::Decl(p, val) => out.push_str(&format!("{}{}: {}\n", pad, p, val)),
            D::Silent(t) => out.push_str(&format!("{}// {}\n", pad, t)),
            D::Loud(t) => out.push_str(&format!("{}/* {} */\n", pad, t)),
            D::Var(n, val) => out.push_str(&format!("{}${}: {}\n", pad, n, val)),
            D::If(c, t, e) => {
                out.push_str(&format!("{}@if {}\n", pad, c));
                p_sass(t, ind + 1, out);
                if let Some(e) = e {
                    out.push_str(&format!("{}@else\n", pad));
                    p_sass(e, ind + 1, out);
                }
            }
            D::Each(items, b) => {
                out.push_str(&format!("{}@each $e in {}\n", pad, items.iter().map(|i| i.to_string()).collect::<Vec<_>>().join(", ")));
                p_sass(b, ind + 1, out);
            }
            D::Include(k) => out.push_str(&format!("{}@include m{}\n", pad, k)),
            D::Media(q, b) => {
                out.push_str(&format!("{}@media {}\n", pad, q));
                p_sass(b, ind + 1, out);
            }
        }
    }
}

/// an empty block is fine in SCSS (`a { }`) but has no spelling in the indented syntax: give every
/// block that holds nothing printable-as-child a silent comment
fn fill(v: &mut Vec<D>) {
    if v.is_empty() {
        v.push(D::Silent("empty".into()));
    }
    for d in v.iter_mut() {
        match d {
            D::Rule(_, b) | D::RuleLines(_, _, b) | D::Each(_, b) | D::Media(_, b) => fill(b),
            D::If(_, t, e) => {
                fill(t);
                if let Some(e) = e {
                    fill(e)
                }
            }
            _ => {}
        }
    }
}

pub fn print_scss(doc: &Doc) -> String {
    let mut doc = doc.clone();
    fill(&mut doc.items);
    let mut out = String::from("$v: 3;\n");
    for (k, m) in doc.mixins.iter().enumerate() {
        out.push_str(&format!("@mixin m{} {{\n", k));
        p_scss(m, 1, &mut out);
        out.push_str("}\n");
    }
    p_scss(&doc.items, 0, &mut out);
    out
}

pub fn print_sass(doc: &Doc) -> String {
    let mut doc = doc.clone();
    fill(&mut doc.items);
    let mut out = String::from("$v: 3\n");
    for (k, m) in doc.mixins.iter().enumerate() {
        out.push_str(&format!("@mixin m{}\n", k));
        p_sass(m, 1, &mut out);
    }
    p_sass(&doc.items, 0, &mut out);
    out
}

//! Generator of selector pairs for C11: a selector list A over the bounded alphabet and a second
//! list B that is either independent or derived from A by a few strengthening / weakening edits
//! (so that `is-superselector` answers `true` often enough to be judged), plus a "crash-only"
//! vocabulary of stranger selector texts.
//!
//! All choices are read from a tape of u16 dice produced by proptest (0 = simplest choice), so the
//! case is a pure function of the tape and shrinks towards small selectors.

use crate::engine::idx;
use crate::oracle::selector::*;
use crate::props::c11::Case;
use proptest::collection::vec;
use proptest::prelude::*;

pub struct Tape<'a> {
    dice: &'a [u16],
    at: usize,
}

impl<'a> Tape<'a> {
    pub fn new(dice: &'a [u16]) -> Tape<'a> {
        Tape { dice, at: 0 }
    }
    fn next(&mut self) -> u16 {
        let v = self.dice.get(self.at).copied().unwrap_or(0);
        self.at += 1;
        v
    }
    fn pick(&mut self, n: usize) -> usize {
        idx(self.next(), n)
    }
    fn chance(&mut self, per_256: u16) -> bool {
        (self.next() >> 8) < per_256
    }
}

const CLASSES: [&str; 3] = ["x", "y", "z"];
const TYPES: [&str; 3] = ["a", "b", "c"];
const IDS: [&str; 2] = ["i", "j"];
const ATTRS: [&str; 2] = ["p", "q"];
const PSEUDO_CLASSES: [&str; 2] = ["hover", "focus"];
const SEL_PSEUDOS: [&str; 6] = ["not", "is", "not", "where", "matches", "any"];
const PSEUDO_ELEMENTS: [&str; 2] = ["before", "after"];

fn gen_plain(t: &mut Tape) -> Simple {
    match t.pick(12) {
        0..=3 => Simple::Class(CLASSES[t.pick(3)].into()),
        4 | 5 => Simple::Type(TYPES[t.pick(3)].into()),
        6 => Simple::Id(IDS[t.pick(2)].into()),
        7 => Simple::Attr(ATTRS[t.pick(2)].into()),
        8 | 9 => Simple::PseudoClass(PSEUDO_CLASSES[t.pick(2)].into(), None),
        10 => Simple::Universal,
        _ => Simple::PseudoClass("nth-child".into(), Some("2n+1".into())),
    }
}

fn tidy(mut v: Vec<Simple>) -> Compound {
    // type / universal first, one of them; one id; pseudo-elements last; no duplicates
    let mut out: Vec<Simple> = vec![];
    v.sort_by_key(|s| match s {
        Simple::Type(_) | Simple::Universal => 0,
        Simple::PseudoElement(..) => 2,
        _ => 1,
    });
    for s in v {
        let dup = match &s {
            Simple::Type(_) | Simple::Universal => out.iter().any(|o| matches!(o, Simple::Type(_) | Simple::Universal)),
            Simple::Id(_) => out.iter().any(|o| matches!(o, Simple::Id(_))),
            Simple::PseudoElement(..) => out.iter().any(|o| matches!(o, Simple::PseudoElement(..))),
            other => out.contains(other),
        };
        if !dup {
            out.push(s);
        }
    }
    Compound(out)
}

fn gen_compound(t: &mut Tape, depth: usize) -> Compound {
    let n = 1 + [0, 0, 1, 1, 2][t.pick(5)];
    let mut v = vec![];
    for _ in 0..n {
        if depth < 2 && t.chance(50) {
            let name = SEL_PSEUDOS[t.pick(SEL_PSEUDOS.len())];
            v.push(Simple::Sel(name.into(), gen_list(t, depth + 1)));
        } else {
            v.push(gen_plain(t));
        }
    }
    tidy(v)
}

fn gen_comb(t: &mut Tape) -> Comb {
    [Comb::Desc, Comb::Desc, Comb::Child, Comb::Next, Comb::Sib][t.pick(5)]
}

fn gen_complex(t: &mut Tape, depth: usize) -> Complex {
    let n = if depth == 0 { 1 + [0, 1, 1, 2][t.pick(4)] } else { 1 + [0, 0, 1][t.pick(3)] };
    let mut comps = vec![];
    let mut combs = vec![];
    for i in 0..n {
        if i > 0 {
            combs.push(gen_comb(t));
        }
        comps.push(gen_compound(t, depth));
    }
    Complex { comps, combs }
}

fn gen_list(t: &mut Tape, depth: usize) -> List {
    let n = 1 + [0, 0, 0, 1][t.pick(4)];
    let mut v: Vec<Complex> = vec![];
    for _ in 0..n {
        let c = gen_complex(t, depth);
        if !v.contains(&c) {
            v.push(c);
        }
    }
    List(v)
}

fn edit(t: &mut Tape, l: &mut List) {
    let ci = t.pick(l.0.len());
    let kind = t.pick(11);
    let c = &mut l.0[ci];
    let ki = t.pick(c.comps.len());
    match kind {
        0 | 1 => {
            // strengthen: one more simple
            let mut v = c.comps[ki].0.clone();
            v.push(gen_plain(t));
            c.comps[ki] = tidy(v);
        }
        2 => {
            // strengthen: a compound in front
            if c.comps.len() < 4 {
                c.comps.insert(0, gen_compound(t, 1));
                c.combs.insert(0, gen_comb(t));
            }
        }
        3 => {
            // a compound in the middle / at the end
            if c.comps.len() < 4 {
                let at = 1 + t.pick(c.comps.len());
                c.comps.insert(at, gen_compound(t, 1));
                c.combs.insert(at - 1, gen_comb(t));
            }
        }
        4 => {
            if !c.combs.is_empty() {
                let k = t.pick(c.combs.len());
                c.combs[k] = gen_comb(t);
            }
        }
        5 => {
            // weaken: drop a simple
            if c.comps[ki].0.len() > 1 {
                let k = t.pick(c.comps[ki].0.len());
                c.comps[ki].0.remove(k);
            }
        }
        6 => {
            // replace an :is()-like pseudo by one of its arguments (when that is a compound)
            let pos = c.comps[ki].0.iter().position(|s| matches!(s, Simple::Sel(n, _) if unvendored(n) != "not"));
            if let Some(p) = pos {
                if let Simple::Sel(_, inner) = c.comps[ki].0[p].clone() {
                    let arg = &inner.0[t.pick(inner.0.len())];
                    if arg.combs.is_empty() {
                        let mut v = c.comps[ki].0.clone();
                        v.remove(p);
                        v.extend(arg.comps[0].0.iter().cloned());
                        c.comps[ki] = tidy(v);
                    }
                }
            } else {
                // wrap the compound's first simple into :is(simple, other)
                let first = c.comps[ki].0[0].clone();
                if !matches!(first, Simple::PseudoElement(..)) {
                    let other = gen_plain(t);
                    let name = ["is", "where", "matches"][t.pick(3)];
                    let mut v = c.comps[ki].0.clone();
                    v[0] = Simple::Sel(
                        name.into(),
                        List(vec![Complex::single(Compound(vec![first])), Complex::single(Compound(vec![other]))]),
                    );
                    c.comps[ki] = tidy(v);
                }
            }
        }
        7 => {
            // drop or add a complex
            if l.0.len() > 1 && t.chance(128) {
                l.0.remove(ci);
            } else if l.0.len() < 3 {
                let n = gen_complex(t, 0);
                l.0.push(n);
            }
        }
        8 => {
            let mut v = c.comps[ki].0.clone();
            v.push(Simple::Sel("not".into(), gen_list(t, 2)));
            c.comps[ki] = tidy(v);
        }
        9 => {
            // weaken: drop a compound
            if c.comps.len() > 1 {
                let k = t.pick(c.comps.len());
                c.comps.remove(k);
                c.combs.remove(if k == 0 { 0 } else { k - 1 });
            }
        }
        _ => {
            // pseudo-element at the end of the subject compound
            let last = c.comps.len() - 1;
            let mut v = c.comps[last].0.clone();
            v.push(Simple::PseudoElement(PSEUDO_ELEMENTS[t.pick(2)].into(), None));
            c.comps[last] = tidy(v);
        }
    }
}

fn all_simples(l: &List) -> Vec<Simple> {
    let mut v = vec![];
    l.walk(&mut |s| {
        if !matches!(s, Simple::Sel(..)) && !v.contains(s) {
            v.push(s.clone())
        }
    });
    v
}

pub fn judged_pair(dice: &[u16], seed: u64) -> Case {
    let mut t = Tape::new(dice);
    let a = gen_list(&mut t, 0);
    let mode = t.pick(10);
    let mut b = if mode < 3 { gen_list(&mut t, 0) } else { a.clone() };
    if mode >= 3 {
        let n = 1 + t.pick(3);
        for _ in 0..n {
            edit(&mut t, &mut b);
        }
    }
    let (a, b) = if t.chance(100) { (b, a) } else { (a, b) };
    // extend target: a simple selector of A (sometimes one that A does not mention)
    let simples = all_simples(&a);
    let target = if simples.is_empty() || t.chance(20) {
        gen_plain(&mut t)
    } else {
        simples[t.pick(simples.len())].clone()
    };
    Case {
        a: a.text(),
        b: b.text(),
        target: target.text(),
        seed,
        class: "judged".into(),
    }
}

/// stranger selectors: everything here is meant to be accepted by the style-rule parser, or else
/// the case is discarded by the check
const ODD: [&str; 54] = [
    "> a", "a >", "+ a", "~ a", "a > > b", "a + ~ b", "> a, b", "a >, b", "*", "*|a", "|a", "ns|a", "ns|*", "*|*", "[p=v]", "[p~='v w']",
    "[p|=v i]", "[ns|p^=v]", "[*|p$=v]", "[p*='v' s]", "::before", "a::after", ":before", "::slotted(.x)", "::slotted(a > b)", ":host(.x)",
    ":host-context(a b)", ":nth-child(2n+1 of .x)", ":nth-last-child(even of a, b)", ":nth-child(-n+3)", ":has(> a)", ":has(.x, + b)",
    ":not(> a)", ":is(a >)", ":not(:not(.x))", ":is(:is(a))", ":not(*)", ":-moz-any(a, .x)", ":-webkit-any(.y)", ":current(.x)", ":lang(en)",
    ":not(.x, .y):not(a b)", "%p", "%p.x", "a%p", ".x.x", "a:not(a)", "#i#j",
    // the parent selector: accepted by the style-rule parser inside another rule
    "&", "& d", "a &", "&.x", "&-s", ":not(&)",
];

pub fn crash_case(dice: &[u16], seed: u64) -> Case {
    let mut t = Tape::new(dice);
    let mut side = |t: &mut Tape| -> String {
        match t.pick(5) {
            0 => gen_list(t, 0).text(),
            1 | 2 => ODD[t.pick(ODD.len())].to_string(),
            3 => {
                // an odd selector glued to / combined with a generated one
                let o = ODD[t.pick(ODD.len())];
                let g = gen_complex(t, 0).text();
                match t.pick(5) {
                    0 => format!("{} {}", g, o),
                    1 => format!("{}, {}", o, g),
                    2 => format!("{} > {}", g, o),
                    3 => format!("{}{}", g, if o.starts_with(|c: char| c.is_ascii_alphabetic() || c == '*' || c == '|' || c == '>' || c == '+' || c == '~') { format!(" {}", o) } else { o.to_string() }),
                    _ => format!(":not({})", o),
                }
            }
            _ => format!("{}, {}", ODD[t.pick(ODD.len())], ODD[t.pick(ODD.len())]),
        }
    };
    let a = side(&mut t);
    let b = side(&mut t);
    let target = match t.pick(4) {
        0 => ODD[t.pick(ODD.len())].to_string(),
        1 => a.clone(),
        _ => gen_plain(&mut t).text(),
    };
    Case {
        a,
        b,
        target,
        seed,
        class: "crash-only".into(),
    }
}

/// two lists of single compounds (where a `null` from selector-unify claims an empty intersection)
pub fn compound_pair(dice: &[u16], seed: u64) -> Case {
    let mut t = Tape::new(dice);
    let mut side = |t: &mut Tape| -> List {
        let n = 1 + [0, 0, 1][t.pick(3)];
        let mut v: Vec<Complex> = vec![];
        for _ in 0..n {
            let mut simples = vec![];
            // a type or an id most of the time, so that conflicts are frequent
            match t.pick(4) {
                0 => simples.push(Simple::Type(TYPES[t.pick(3)].into())),
                1 => simples.push(Simple::Id(IDS[t.pick(2)].into())),
                2 => {
                    simples.push(Simple::Type(TYPES[t.pick(3)].into()));
                    simples.push(Simple::Id(IDS[t.pick(2)].into()));
                }
                _ => {}
            }
            let k = t.pick(3);
            for _ in 0..k {
                simples.push(gen_plain(t));
            }
            if t.chance(40) {
                simples.push(Simple::PseudoElement(PSEUDO_ELEMENTS[t.pick(2)].into(), None));
            }
            if t.chance(40) {
                simples.push(Simple::Sel(SEL_PSEUDOS[t.pick(SEL_PSEUDOS.len())].into(), gen_list(t, 2)));
            }
            if simples.is_empty() {
                simples.push(gen_plain(t));
            }
            let c = Complex::single(tidy(simples));
            if !v.contains(&c) {
                v.push(c);
            }
        }
        List(v)
    };
    let a = side(&mut t);
    let b = side(&mut t);
    let simples = all_simples(&a);
    let target = simples[t.pick(simples.len())].clone();
    Case {
        a: a.text(),
        b: b.text(),
        target: target.text(),
        seed,
        class: "judged".into(),
    }
}

pub fn pairs() -> impl Strategy<Value = Case> {
    (vec(any::<u16>(), 96), any::<u64>(), 0u8..10).prop_map(|(dice, seed, k)| {
        if k < 7 {
            judged_pair(&dice, seed)
        } else if k == 7 {
            compound_pair(&dice, seed)
        } else {
            crash_case(&dice, seed)
        }
    })
}

/// every ODD selector against itself and a plain partner, in both positions
pub fn directed() -> Vec<Case> {
    let mut out = vec![];
    for (k, o) in ODD.iter().enumerate() {
        for (a, b, tg) in [(*o, "a.x", ".x"), ("a .x", *o, ".x"), (*o, *o, *o)] {
            out.push(Case {
                a: a.into(),
                b: b.into(),
                target: tg.into(),
                seed: k as u64,
                class: "crash-only".into(),
            });
        }
    }
    out
}

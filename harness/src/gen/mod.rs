pub mod text;
pub mod chooser;
pub mod sheet;
pub mod fstree;

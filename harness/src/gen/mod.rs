pub mod text;

//! Value generator `V`: a small SassScript value AST with a printer to SassScript source, a
//! reference `inspect` printer (dart-sass 1.54 spelling, expanded style), Sass equality and
//! proptest strategies. Used by C14 (list/map/string built-ins); reusable by other checks.
//!
//! Numbers are exact thousandths (`milli`), so no floating point is involved anywhere in the
//! reference: `1.5px` = `Num { milli: 1500, unit: "px" }`.

use proptest::prelude::*;
use serde::{Deserialize, Serialize};

#[derive(Clone, Copy, Debug, PartialEq, Eq, Hash, Serialize, Deserialize, PartialOrd, Ord)]
pub enum Sep {
    Space,
    Comma,
    Slash,
    /// lists with fewer than two elements that were not given a separator
    Undecided,
}

impl Sep {
    pub fn name(self) -> &'static str {
        match self {
            Sep::Space => "space",
            Sep::Comma => "comma",
            Sep::Slash => "slash",
            Sep::Undecided => "undecided",
        }
    }
}

#[derive(Clone, Debug, PartialEq, Eq, Hash, Serialize, Deserialize)]
pub enum Val {
    /// value = milli / 1000; unit is "" or a single numerator unit
    Num { milli: i64, unit: String },
    Str { text: String, quoted: bool },
    Bool(bool),
    Null,
    List { items: Vec<Val>, sep: Sep, bracketed: bool },
    /// insertion-ordered; keys pairwise distinct under `sass_eq`
    Map(Vec<(Val, Val)>),
}

pub fn fmt_milli(m: i64) -> String {
    let neg = m < 0;
    let a = m.unsigned_abs();
    let int = a / 1000;
    let frac = a % 1000;
    let mut s = String::new();
    if neg {
        s.push('-');
    }
    s.push_str(&int.to_string());
    if frac != 0 {
        let f = format!("{:03}", frac);
        s.push('.');
        s.push_str(f.trim_end_matches('0'));
    }
    s
}

pub fn is_combining(c: char) -> bool {
    matches!(c as u32, 0x300..=0x36f | 0x20d0..=0x20ff | 0xfe00..=0xfe0f | 0xe0100..=0xe01ef)
}
pub fn is_astral(c: char) -> bool {
    (c as u32) > 0xffff
}
pub fn is_multibyte(c: char) -> bool {
    c.len_utf8() > 1
}
/// non-BMP or combining: the characters for which byte/UTF-16/grapheme positions differ most
pub fn is_special(c: char) -> bool {
    is_astral(c) || is_combining(c)
}

impl Val {
    pub fn int(n: i64) -> Val {
        Val::Num { milli: n * 1000, unit: String::new() }
    }
    pub fn q(s: &str) -> Val {
        Val::Str { text: s.to_string(), quoted: true }
    }
    pub fn u(s: &str) -> Val {
        Val::Str { text: s.to_string(), quoted: false }
    }
    pub fn list(items: Vec<Val>, sep: Sep, bracketed: bool) -> Val {
        Val::List { items, sep, bracketed }
    }
    pub fn empty_list() -> Val {
        Val::List { items: vec![], sep: Sep::Undecided, bracketed: false }
    }

    pub fn type_name(&self) -> &'static str {
        match self {
            Val::Num { .. } => "number",
            Val::Str { .. } => "string",
            Val::Bool(_) => "bool",
            Val::Null => "null",
            Val::List { .. } => "list",
            Val::Map(_) => "map",
        }
    }

    pub fn truthy(&self) -> bool {
        !matches!(self, Val::Null | Val::Bool(false))
    }

    /// every Sass value is a list; maps are lists of (key value) pairs
    pub fn as_list(&self) -> Vec<Val> {
        match self {
            Val::List { items, .. } => items.clone(),
            Val::Map(m) => m
                .iter()
                .map(|(k, v)| Val::List { items: vec![k.clone(), v.clone()], sep: Sep::Space, bracketed: false })
                .collect(),
            other => vec![other.clone()],
        }
    }
    pub fn separator(&self) -> Sep {
        match self {
            Val::List { sep, .. } => *sep,
            Val::Map(m) => {
                if m.is_empty() {
                    Sep::Undecided
                } else {
                    Sep::Comma
                }
            }
            _ => Sep::Undecided,
        }
    }
    pub fn is_bracketed(&self) -> bool {
        matches!(self, Val::List { bracketed: true, .. })
    }
    /// a map, or an empty list standing for the empty map
    pub fn try_map(&self) -> Option<Vec<(Val, Val)>> {
        match self {
            Val::Map(m) => Some(m.clone()),
            Val::List { items, .. } if items.is_empty() => Some(vec![]),
            _ => None,
        }
    }

    /// Sass `==` restricted to this AST (units here never convert into each other: "", px, em, %).
    pub fn sass_eq(&self, o: &Val) -> bool {
        match (self, o) {
            (Val::Num { milli: a, unit: ua }, Val::Num { milli: b, unit: ub }) => a == b && ua == ub,
            (Val::Str { text: a, .. }, Val::Str { text: b, .. }) => a == b,
            (Val::Bool(a), Val::Bool(b)) => a == b,
            (Val::Null, Val::Null) => true,
            (Val::List { items: a, sep: sa, bracketed: ba }, Val::List { items: b, sep: sb, bracketed: bb }) => {
                sa == sb && ba == bb && a.len() == b.len() && a.iter().zip(b).all(|(x, y)| x.sass_eq(y))
            }
            (Val::Map(a), Val::Map(b)) => {
                a.len() == b.len()
                    && a.iter().all(|(k, v)| b.iter().any(|(k2, v2)| k.sass_eq(k2) && v.sass_eq(v2)))
            }
            (Val::List { items, .. }, Val::Map(m)) | (Val::Map(m), Val::List { items, .. }) => {
                items.is_empty() && m.is_empty()
            }
            _ => false,
        }
    }

    /// SassScript source for this value, self-delimiting: usable as a function argument, a list
    /// element or a map key/value without further parentheses. Requires `@use "sass:list"` for
    /// slash-separated lists.
    pub fn to_scss(&self) -> String {
        match self {
            Val::Num { milli, unit } => format!("{}{}", fmt_milli(*milli), unit),
            Val::Str { text, quoted: true } => {
                let mut s = String::from("\"");
                for c in text.chars() {
                    if c == '"' || c == '\\' {
                        s.push('\\');
                    }
                    s.push(c);
                }
                s.push('"');
                s
            }
            Val::Str { text, quoted: false } => text.clone(),
            Val::Bool(b) => b.to_string(),
            Val::Null => "null".into(),
            Val::List { items, sep, bracketed } => {
                let (open, close) = if *bracketed { ("[", "]") } else { ("(", ")") };
                let el = |v: &Val, sp: bool| -> String {
                    let t = v.to_scss();
                    // `1 -2` is a list but keep clear of every unary/binary minus reading
                    if sp && t.starts_with('-') {
                        format!("({})", t)
                    } else {
                        t
                    }
                };
                match (items.len(), sep) {
                    (0, _) => format!("{}{}", open, close),
                    (1, Sep::Comma) => format!("{}{},{}", open, el(&items[0], false), close),
                    (1, Sep::Undecided) => {
                        if *bracketed {
                            format!("[{}]", el(&items[0], true))
                        } else {
                            items[0].to_scss()
                        }
                    }
                    // not produced by the generators: needs a function to be written at all
                    (1, s) => format!(
                        "list.append({}{}, {}, $separator: {})",
                        open,
                        close,
                        el(&items[0], false),
                        s.name()
                    ),
                    (_, Sep::Slash) => {
                        let inner: Vec<String> = items.iter().map(|v| el(v, false)).collect();
                        let sl = format!("list.slash({})", inner.join(", "));
                        if *bracketed {
                            format!("list.join({}, (), $bracketed: true)", sl)
                        } else {
                            sl
                        }
                    }
                    (_, Sep::Comma) => {
                        let inner: Vec<String> = items.iter().map(|v| el(v, false)).collect();
                        format!("{}{}{}", open, inner.join(", "), close)
                    }
                    (_, _) => {
                        let inner: Vec<String> = items.iter().map(|v| el(v, true)).collect();
                        format!("{}{}{}", open, inner.join(" "), close)
                    }
                }
            }
            Val::Map(m) => {
                if m.is_empty() {
                    // an empty *map* (not the empty list `()`): needs `@use "sass:map"`
                    return "map.remove((a: 1), a)".into();
                }
                let inner: Vec<String> = m.iter().map(|(k, v)| format!("{}: {}", k.to_scss(), v.to_scss())).collect();
                format!("({})", inner.join(", "))
            }
        }
    }

    /// Reference `inspect()` text (dart-sass 1.54, expanded output style).
    pub fn inspect(&self) -> String {
        let mut s = String::new();
        self.inspect_into(&mut s);
        s
    }

    fn inspect_into(&self, out: &mut String) {
        match self {
            Val::Num { milli, unit } => {
                out.push_str(&fmt_milli(*milli));
                out.push_str(unit);
            }
            Val::Str { text, quoted: false } => out.push_str(text),
            Val::Str { text, quoted: true } => out.push_str(&quote_string(text)),
            Val::Bool(b) => out.push_str(if *b { "true" } else { "false" }),
            Val::Null => out.push_str("null"),
            Val::List { items, sep, bracketed } => {
                if items.is_empty() {
                    out.push_str(if *bracketed { "[]" } else { "()" });
                    return;
                }
                let singleton = items.len() == 1 && matches!(sep, Sep::Comma | Sep::Slash);
                if *bracketed {
                    out.push('[');
                } else if singleton {
                    out.push('(');
                }
                let between = match sep {
                    Sep::Comma => ", ",
                    Sep::Slash => " / ",
                    _ => " ",
                };
                for (i, it) in items.iter().enumerate() {
                    if i > 0 {
                        out.push_str(between);
                    }
                    let parens = element_needs_parens(*sep, it);
                    if parens {
                        out.push('(');
                    }
                    it.inspect_into(out);
                    if parens {
                        out.push(')');
                    }
                }
                if singleton {
                    out.push_str(if *sep == Sep::Comma { "," } else { "/" });
                    if !*bracketed {
                        out.push(')');
                    }
                }
                if *bracketed {
                    out.push(']');
                }
            }
            Val::Map(m) => {
                out.push('(');
                for (i, (k, v)) in m.iter().enumerate() {
                    if i > 0 {
                        out.push_str(", ");
                    }
                    for x in [k, v] {
                        let parens = matches!(x, Val::List { sep: Sep::Comma, bracketed: false, .. });
                        if parens {
                            out.push('(');
                        }
                        x.inspect_into(out);
                        if parens {
                            out.push(')');
                        }
                        if std::ptr::eq(x, k) {
                            out.push_str(": ");
                        }
                    }
                }
                out.push(')');
            }
        }
    }

    /// false where the documentation does not pin the `inspect` spelling down (single-element
    /// slash lists; comma lists of fewer than two elements directly inside a map; unquoted strings
    /// that are empty or blank inside a structure). Such results are only required not to fail.
    pub fn inspect_specified(&self) -> bool {
        fn walk(v: &Val, top: bool) -> bool {
            match v {
                Val::List { items, sep, .. } => {
                    if items.len() == 1 && *sep == Sep::Slash {
                        return false;
                    }
                    items.iter().all(|x| walk(x, false))
                }
                Val::Map(m) => m.iter().all(|(k, v)| {
                    let short_comma =
                        |x: &Val| matches!(x, Val::List { items, sep: Sep::Comma, bracketed: false } if items.len() < 2);
                    !short_comma(k) && !short_comma(v) && walk(k, false) && walk(v, false)
                }),
                Val::Str { text, quoted: false } => top || !text.trim().is_empty(),
                _ => true,
            }
        }
        walk(self, true)
    }

    /// depth of list/map nesting (scalar = 0)
    pub fn depth(&self) -> usize {
        match self {
            Val::List { items, .. } => 1 + items.iter().map(|v| v.depth()).max().unwrap_or(0),
            Val::Map(m) => 1 + m.iter().map(|(k, v)| k.depth().max(v.depth())).max().unwrap_or(0),
            _ => 0,
        }
    }

    /// the set of decided separators used anywhere in the value
    pub fn separators(&self, acc: &mut Vec<Sep>) {
        match self {
            Val::List { items, sep, .. } => {
                if *sep != Sep::Undecided && !acc.contains(sep) {
                    acc.push(*sep);
                }
                for i in items {
                    i.separators(acc);
                }
            }
            Val::Map(m) => {
                for (k, v) in m {
                    k.separators(acc);
                    v.separators(acc);
                }
            }
            _ => {}
        }
    }
}

fn element_needs_parens(sep: Sep, v: &Val) -> bool {
    match v {
        Val::List { items, sep: es, bracketed: false } if items.len() >= 2 => match sep {
            Sep::Comma => *es == Sep::Comma,
            Sep::Slash => matches!(es, Sep::Comma | Sep::Slash),
            _ => *es != Sep::Undecided,
        },
        _ => false,
    }
}

/// dart-sass `_visitQuotedString`: double quotes unless the text contains `"` and no `'`.
/// (Control characters and private-use code points, which would be escaped, are not generated.)
pub fn quote_string(text: &str) -> String {
    let has_d = text.contains('"');
    let has_s = text.contains('\'');
    let q = if has_d && !has_s { '\'' } else { '"' };
    let mut s = String::new();
    s.push(q);
    for c in text.chars() {
        match c {
            '\\' => s.push_str("\\\\"),
            '"' if q == '"' => s.push_str("\\\""),
            _ => s.push(c),
        }
    }
    s.push(q);
    s
}

// ------------------------------------------------------------------------------------------
// strategies
// ------------------------------------------------------------------------------------------

/// characters for quoted strings: ASCII, multi-byte BMP (incl. case-mapping traps: ß ı ſ K ǆ),
/// combining marks, astral code points
pub const STR_CHARS: &[(u32, char)] = &[
    (6, 'a'), (5, 'b'), (4, 'c'), (2, 'x'), (2, 'z'), (3, 'A'), (2, 'B'), (2, 'Z'), (2, '0'), (2, '1'),
    (1, '9'), (4, ' '), (3, '-'), (2, '_'), (2, '.'), (4, ','), (2, '/'), (1, ':'), (1, ';'), (1, '!'),
    (1, '('), (1, ')'), (1, '"'), (1, '\''), (1, '\\'), (1, '*'), (1, '%'),
    (4, 'é'), (2, 'ß'), (2, 'ı'), (1, 'ſ'), (2, '\u{212a}'), (2, 'Ω'), (3, '日'), (1, 'ǆ'), (1, 'ÿ'), (1, 'É'),
    (5, '\u{301}'), (3, '\u{308}'), (2, '\u{20dd}'), (1, '\u{fe0f}'),
    (6, '😀'), (3, '𝒳'), (2, '\u{1f1e6}'), (2, '\u{e0100}'),
];

const IDENT_START: &[char] = &['a', 'b', 'c', 'x', 'k', 'A', 'Z', 'é', '日', '😀', '_', 'Ω'];
const IDENT_REST: &[char] = &['a', 'b', 'c', 'z', 'A', '1', '9', '-', '_', 'é', '\u{301}', '😀', 'Ω', '𝒳', 'ß'];
const WORDS: &[&str] = &[
    "a", "b", "c", "x", "foo", "bar", "baz", "ab", "Abc", "XY", "auto", "comma", "space", "k1", "a-b", "fooBar",
];

fn weighted_char() -> BoxedStrategy<char> {
    let total: u32 = STR_CHARS.iter().map(|(w, _)| *w).sum();
    (0..total)
        .prop_map(|mut r| {
            for (w, c) in STR_CHARS {
                if r < *w {
                    return *c;
                }
                r -= *w;
            }
            'a'
        })
        .boxed()
}

/// text of a quoted string, 0..=8 code points. U+10FFFF is a noncharacter but a valid scalar
/// value; it is not private use (planes 15/16 private-use ranges end at U+10FFFD).
pub fn text(max: usize) -> BoxedStrategy<String> {
    proptest::collection::vec(weighted_char(), 0..=max)
        .prop_map(|v| v.into_iter().filter(|c| *c != '\u{10ffff}').collect::<String>())
        .boxed()
}

fn sanitize_ident(s: String) -> String {
    let mut s = s;
    while s.ends_with('-') {
        s.pop();
    }
    if s.is_empty() {
        return "a".into();
    }
    // words of two or more ASCII letters might be colour names or keywords: make them neither
    if s.chars().count() >= 2 && s.chars().all(|c| c.is_ascii_alphabetic()) {
        s.push('_');
    }
    s
}

pub fn ident() -> BoxedStrategy<String> {
    prop_oneof![
        5 => proptest::sample::select(WORDS).prop_map(|s| s.to_string()),
        5 => (
            proptest::sample::select(IDENT_START),
            proptest::collection::vec(proptest::sample::select(IDENT_REST), 0..=4)
        )
            .prop_map(|(a, rest)| {
                let mut s = String::new();
                s.push(a);
                s.extend(rest);
                sanitize_ident(s)
            }),
    ]
    .boxed()
}

pub fn quoted_string() -> BoxedStrategy<Val> {
    text(8).prop_map(|t| Val::Str { text: t, quoted: true }).boxed()
}
pub fn unquoted_string() -> BoxedStrategy<Val> {
    ident().prop_map(|t| Val::Str { text: t, quoted: false }).boxed()
}
pub fn string() -> BoxedStrategy<Val> {
    prop_oneof![3 => quoted_string(), 2 => unquoted_string()].boxed()
}

pub fn number() -> BoxedStrategy<Val> {
    let milli = prop_oneof![
        12 => (-8i64..=8).prop_map(|n| n * 1000),
        3 => (-8000i64..=8000),
        1 => proptest::sample::select(&[100_000i64, 1_000_000_000, -1_000_000_000, 500, -500, 1, 999][..]),
    ];
    let unit = prop_oneof![
        15 => Just(""),
        2 => Just("px"),
        1 => Just("em"),
        2 => Just("%"),
    ];
    (milli, unit).prop_map(|(m, u)| Val::Num { milli: m, unit: u.to_string() }).boxed()
}

pub fn scalar() -> BoxedStrategy<Val> {
    prop_oneof![
        7 => number(),
        4 => quoted_string(),
        5 => unquoted_string(),
        1 => any::<bool>().prop_map(Val::Bool),
        1 => Just(Val::Null),
    ]
    .boxed()
}

/// normalise (items, wished separator, wished bracket) into a list that can be written literally
pub fn mk_list(items: Vec<Val>, sep: Sep, bracketed: bool) -> Val {
    let sep = match items.len() {
        0 => Sep::Undecided,
        1 => match sep {
            Sep::Comma => Sep::Comma,
            _ if bracketed => Sep::Undecided,
            _ => Sep::Comma,
        },
        _ => match sep {
            Sep::Undecided => Sep::Space,
            Sep::Slash if bracketed => Sep::Comma,
            s => s,
        },
    };
    Val::List { items, sep, bracketed }
}

fn sep() -> BoxedStrategy<Sep> {
    prop_oneof![4 => Just(Sep::Space), 4 => Just(Sep::Comma), 2 => Just(Sep::Slash), 1 => Just(Sep::Undecided)].boxed()
}

/// lists of length 0..=6 in every separator/bracket combination; elements of depth < `depth`
pub fn list(depth: u32) -> BoxedStrategy<Val> {
    let el = if depth <= 1 { scalar() } else { value(depth - 1) };
    let len = prop_oneof![1 => Just(0usize), 2 => Just(1usize), 3 => Just(2usize), 3 => Just(3usize), 1 => Just(4usize), 1 => Just(5usize), 1 => Just(6usize)];
    (len, sep(), any::<bool>().prop_map(|b| b), any::<u8>())
        .prop_flat_map(move |(n, s, b, w)| {
            let bracketed = b && w % 2 == 0; // 25 % bracketed
            proptest::collection::vec(el.clone(), n..=n).prop_map(move |items| mk_list(items, s, bracketed))
        })
        .boxed()
}

/// keys come from a small pool so that look-ups hit and literals collide (`a` and "a" are equal)
pub fn key() -> BoxedStrategy<Val> {
    prop_oneof![
        4 => Just(Val::u("a")),
        4 => Just(Val::u("b")),
        3 => Just(Val::u("c")),
        1 => Just(Val::q("a")),
        1 => Just(Val::q("k é")),
        2 => Just(Val::int(1)),
        1 => Just(Val::int(2)),
        1 => Just(Val::Num { milli: 1000, unit: "px".into() }),
        1 => Just(Val::int(-1)),
        1 => Just(Val::Bool(true)),
        1 => Just(Val::Null),
        1 => Just(Val::List { items: vec![Val::int(1), Val::int(2)], sep: Sep::Space, bracketed: false }),
        1 => Just(Val::u("😀")),
        1 => Just(Val::Num { milli: 1500, unit: String::new() }),
    ]
    .boxed()
}

pub fn dedup_pairs(pairs: Vec<(Val, Val)>) -> Vec<(Val, Val)> {
    let mut out: Vec<(Val, Val)> = vec![];
    for (k, v) in pairs {
        if !out.iter().any(|(k2, _)| k2.sass_eq(&k)) {
            out.push((k, v));
        }
    }
    out
}

/// non-empty maps with nested maps (nesting depth <= `depth`)
pub fn map(depth: u32) -> BoxedStrategy<Val> {
    let v = if depth <= 1 {
        scalar()
    } else {
        prop_oneof![3 => scalar(), 4 => map(depth - 1), 1 => list(1), 1 => Just(Val::empty_list())].boxed()
    };
    proptest::collection::vec((key(), v), 1..=4)
        .prop_map(|pairs| Val::Map(dedup_pairs(pairs)))
        .boxed()
}

/// any value, list/map nesting at most `depth`
pub fn value(depth: u32) -> BoxedStrategy<Val> {
    if depth == 0 {
        return scalar();
    }
    prop_oneof![
        5 => scalar(),
        4 => list(depth),
        2 => map(depth),
    ]
    .boxed()
}

#[cfg(test)]
mod tests {
    use super::*;
    #[test]
    fn fmt() {
        assert_eq!(fmt_milli(1500), "1.5");
        assert_eq!(fmt_milli(-250), "-0.25");
        assert_eq!(fmt_milli(3000), "3");
        assert_eq!(fmt_milli(1), "0.001");
    }
    #[test]
    fn inspect_lists() {
        let l = Val::list(vec![Val::int(1)], Sep::Comma, false);
        assert_eq!(l.inspect(), "(1,)");
        let n = Val::list(vec![l.clone()], Sep::Comma, false);
        assert_eq!(n.inspect(), "((1,),)");
        let sp = Val::list(vec![Val::int(1), Val::int(2)], Sep::Space, false);
        let c = Val::list(vec![sp.clone(), sp.clone()], Sep::Comma, false);
        assert_eq!(c.inspect(), "1 2, 1 2");
        let s = Val::list(vec![sp.clone(), c.clone()], Sep::Space, true);
        assert_eq!(s.inspect(), "[(1 2) (1 2, 1 2)]");
        assert_eq!(quote_string("a\"b"), "'a\"b'");
        assert_eq!(quote_string("a\"'b"), "\"a\\\"'b\"");
    }
}

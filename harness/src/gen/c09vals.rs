//! C09 value universe: a typed AST of SassScript value *expressions*, the table of atom families
//! (members of one family are different spellings that the Sass documentation calls equal), the
//! fixed universe U, and proptest strategies for random universes / key pools built from the same
//! constructors (seed value + "respellings" + "near misses").
//!
//! The intended equalities only steer the generator (so that many `==`-but-textually-different pairs
//! and near misses occur); no verdict depends on them.

use crate::engine::idx;
use proptest::prelude::*;
use serde::{Deserialize, Serialize};
use std::collections::HashMap;
use std::sync::OnceLock;

#[derive(Clone, Copy, Debug, Serialize, Deserialize, PartialEq, Eq, Hash, PartialOrd, Ord)]
pub enum K {
    /// plain number literal `<decimal><unit>`
    Num,
    /// number obtained from an expression (compound units, infinity)
    NumExpr,
    NaN,
    Str,
    Color,
    Null,
    Bool,
    FnRef,
    Calc,
}

#[derive(Clone, Debug, Serialize, Deserialize, PartialEq, Eq, Hash)]
pub enum V {
    Atom { k: K, e: String },
    List { items: Vec<V>, comma: bool, br: bool },
    Map(Vec<(V, V)>),
    /// `args(a, b)` with `@function args($a...) { @return $a }`
    Args(Vec<V>),
    /// `map-remove((x: 1), x)`
    EmptyMap,
}

pub const PRELUDE: &str = "@use \"sass:map\";\n@use \"sass:math\";\n@use \"sass:meta\";\n@use \"sass:list\";\n@function args($a...) { @return $a; }\n$E: map-remove((x: 1), x);\n";

fn atom(k: K, e: &str) -> V {
    V::Atom { k, e: e.to_string() }
}

impl V {
    /// SassScript expression text; self-delimiting (can be used as a list item, map key/value or argument)
    pub fn expr(&self) -> String {
        match self {
            V::Atom { k, e } => {
                if matches!(k, K::Num) && (e.starts_with('-') || e.starts_with('+')) {
                    format!("({})", e)
                } else {
                    e.clone()
                }
            }
            V::List { items, comma, br } => {
                let (o, c) = if *br { ("[", "]") } else { ("(", ")") };
                if items.is_empty() {
                    return format!("{}{}", o, c);
                }
                if items.len() == 1 {
                    let it = items[0].expr();
                    return if *comma {
                        format!("{}{},{}", o, it, c)
                    } else if *br {
                        format!("[{}]", it)
                    } else {
                        format!("append((), {}, space)", it)
                    };
                }
                let parts: Vec<String> = items.iter().map(|i| i.expr()).collect();
                format!("{}{}{}", o, parts.join(if *comma { ", " } else { " " }), c)
            }
            V::Map(es) => {
                if es.is_empty() {
                    return "$E".to_string();
                }
                let parts: Vec<String> = es
                    .iter()
                    .map(|(k, v)| format!("{}: {}", k.expr(), v.expr()))
                    .collect();
                format!("({})", parts.join(", "))
            }
            V::Args(items) => {
                let parts: Vec<String> = items.iter().map(|i| i.expr()).collect();
                format!("args({})", parts.join(", "))
            }
            V::EmptyMap => "$E".to_string(),
        }
    }

    /// coarse kind of the top-level value (used in failure signatures and class names)
    pub fn tag(&self) -> &'static str {
        match self {
            V::Atom { k, .. } => match k {
                K::Num | K::NumExpr => "num",
                K::NaN => "nan",
                K::Str => "str",
                K::Color => "color",
                K::Null => "null",
                K::Bool => "bool",
                K::FnRef => "fnref",
                K::Calc => "calc",
            },
            V::List { br: true, .. } => "blist",
            V::List { .. } => "list",
            V::Map(_) => "map",
            V::Args(_) => "arglist",
            V::EmptyMap => "emptymap",
        }
    }

    pub fn contains_nan(&self) -> bool {
        match self {
            V::Atom { k, .. } => *k == K::NaN,
            V::List { items, .. } | V::Args(items) => items.iter().any(|i| i.contains_nan()),
            V::Map(es) => es.iter().any(|(k, v)| k.contains_nan() || v.contains_nan()),
            V::EmptyMap => false,
        }
    }

    pub fn contains_args(&self) -> bool {
        match self {
            V::Atom { .. } | V::EmptyMap => false,
            V::Args(_) => true,
            V::List { items, .. } => items.iter().any(|i| i.contains_args()),
            V::Map(es) => es.iter().any(|(k, v)| k.contains_args() || v.contains_args()),
        }
    }

    pub fn depth(&self) -> usize {
        match self {
            V::Atom { .. } | V::EmptyMap => 0,
            V::List { items, .. } | V::Args(items) => 1 + items.iter().map(|i| i.depth()).max().unwrap_or(0),
            V::Map(es) => 1 + es.iter().map(|(k, v)| k.depth().max(v.depth())).max().unwrap_or(0),
        }
    }
}

// ---------------------------------------------------------------------------------------------
// numbers: parsing of the literals this generator writes, and the CSS unit table (absolute units)

/// `<sign><digits>[.<digits>]<unit>`; no exponents are generated
pub fn parse_num(e: &str) -> Option<(f64, String)> {
    let b = e.as_bytes();
    let mut i = 0;
    if i < b.len() && (b[i] == b'-' || b[i] == b'+') {
        i += 1;
    }
    let s = i;
    while i < b.len() && (b[i].is_ascii_digit() || b[i] == b'.') {
        i += 1;
    }
    if i == s {
        return None;
    }
    let v: f64 = e[..i].parse().ok()?;
    Some((v, e[i..].to_string()))
}

/// (conversion class, factor to the class's reference unit) from the CSS Values specification
pub fn unit_factor(u: &str) -> Option<(u8, f64)> {
    Some(match u {
        "px" => (0, 1.0),
        "in" => (0, 96.0),
        "cm" => (0, 96.0 / 2.54),
        "mm" => (0, 96.0 / 25.4),
        "q" => (0, 96.0 / 101.6),
        "pt" => (0, 96.0 / 72.0),
        "pc" => (0, 16.0),
        "ms" => (1, 1.0),
        "s" => (1, 1000.0),
        "deg" => (2, 1.0),
        "turn" => (2, 360.0),
        "grad" => (2, 0.9),
        "rad" => (2, 180.0 / std::f64::consts::PI),
        "Hz" => (3, 1.0),
        "kHz" => (3, 1000.0),
        "dpi" => (4, 1.0),
        "dpcm" => (4, 2.54),
        "dppx" => (4, 96.0),
        _ => return None,
    })
}

fn far_from_edge(x: f64) -> bool {
    let t = x * 1e11;
    ((t - t.floor()) - 0.5).abs() > 0.2
}

/// Two number literals with *different but convertible* units whose fuzzy comparison is not robustly
/// decided: measured in either unit they are neither "safely equal" (closer than 5e-13, both far from
/// a 1e-11 bucket edge, magnitude <= 500) nor "safely different" (at least 1e-9 apart), or the two
/// units disagree. This is the window of known finding C09/cross-unit-fuzzy (DESIGN §4 #18).
pub fn cross_unit_window(a: &str, b: &str) -> bool {
    let (x, ux) = match parse_num(a) {
        Some(p) => p,
        None => return false,
    };
    let (y, uy) = match parse_num(b) {
        Some(p) => p,
        None => return false,
    };
    if ux == uy {
        return false;
    }
    let (cx, fx) = match unit_factor(&ux) {
        Some(p) => p,
        None => return false,
    };
    let (cy, fy) = match unit_factor(&uy) {
        Some(p) => p,
        None => return false,
    };
    if cx != cy {
        return false;
    }
    let mut verdicts = vec![];
    for (p, q) in [(x, y * fy / fx), (x * fx / fy, y)] {
        let d = (p - q).abs();
        if d >= 1e-9 {
            verdicts.push(false);
            continue;
        }
        if d * 1e11 < 0.05 && p.abs() <= 500.0 && q.abs() <= 500.0 && far_from_edge(p) && far_from_edge(q) {
            verdicts.push(true);
            continue;
        }
        return true;
    }
    verdicts[0] != verdicts[1]
}

/// structural relation between two values: do they contain, at corresponding positions,
/// (a) a plain list against an argument list (known finding C09/arglist-list-asymmetry),
/// (b) two numbers inside the cross-unit fuzzy window?
#[derive(Clone, Copy, Debug, Default, PartialEq, Eq)]
pub struct Rel {
    pub arglist_vs_list: bool,
    pub window: bool,
}

pub fn relate(a: &V, b: &V) -> Rel {
    let mut r = Rel::default();
    fn go(a: &V, b: &V, r: &mut Rel) {
        match (a, b) {
            (V::Atom { k: K::Num, e: ea }, V::Atom { k: K::Num, e: eb }) => {
                if cross_unit_window(ea, eb) {
                    r.window = true;
                }
            }
            (V::Args(_), V::List { .. }) | (V::List { .. }, V::Args(_)) => {
                r.arglist_vs_list = true;
                // the items are compared as well
                let (x, y) = (items_of(a), items_of(b));
                for (p, q) in x.iter().zip(y.iter()) {
                    go(p, q, r);
                }
            }
            (V::List { items: x, .. }, V::List { items: y, .. }) | (V::Args(x), V::Args(y)) => {
                for (p, q) in x.iter().zip(y.iter()) {
                    go(p, q, r);
                }
            }
            (V::Map(x), V::Map(y)) => {
                // maps are compared entry against entry in any order
                for (ka, va) in x {
                    for (kb, vb) in y {
                        go(ka, kb, r);
                        go(va, vb, r);
                    }
                }
            }
            _ => {}
        }
    }
    fn items_of(v: &V) -> &[V] {
        match v {
            V::List { items, .. } | V::Args(items) => items,
            _ => &[],
        }
    }
    go(a, b, &mut r);
    r
}

// ---------------------------------------------------------------------------------------------
// atom table: clusters of families; members of a family are spellings documented as equal,
// families of one cluster are near misses of each other

pub struct Family {
    pub k: K,
    pub members: Vec<&'static str>,
}

fn fam(k: K, members: &[&'static str]) -> Family {
    Family { k, members: members.to_vec() }
}

pub fn clusters() -> &'static Vec<Vec<Family>> {
    static T: OnceLock<Vec<Vec<Family>>> = OnceLock::new();
    T.get_or_init(|| {
        use K::*;
        vec![
            // 0: around one
            vec![
                fam(Num, &["1", "1.0", "1.0000000000001", "+1"]),
                fam(Num, &["1.000000001"]),
                fam(Num, &["1.00000000001"]),
                fam(Num, &["1.000000000007"]),
                fam(Num, &["1.000000000014"]),
                fam(Num, &["2", "2.0"]),
                fam(Num, &["-1", "-1.0"]),
                fam(Num, &["100%", "100.0%"]),
                fam(Num, &["1px", "1.0px", "1.0000000000001px"]),
                fam(Num, &["1em"]),
                fam(Num, &["1rem"]),
                fam(Str, &["\"1\"", "unquote(\"1\")"]),
            ],
            // 1: one inch
            vec![
                fam(Num, &["96px", "1in", "2.54cm", "25.4mm", "72pt", "6pc", "96.0px", "96.0000000000001px"]),
                fam(Num, &["96.000001px"]),
                fam(Num, &["48px", "0.5in", ".5in", "1.27cm", "36pt", "3pc"]),
                fam(Num, &["1.000000001in"]),
                fam(Num, &["96"]),
                // deliberately inside the cross-unit window (excluded + counted when it meets px/cm/...)
                fam(Num, &["1.0000000000001in"]),
            ],
            // 2: zero
            vec![
                fam(Num, &["0", "-0", "0.0", "-0.0", "0.000000000001"]),
                fam(Num, &["0px", "-0px", "0in", "0cm"]),
                fam(Num, &["0%"]),
                fam(Num, &["0.00000000001"]),
                // an epsilon chain: neighbours are < 1e-11 apart, the ends are not
                fam(Num, &["0.000000000007"]),
                fam(Num, &["0.000000000014"]),
                fam(Num, &["0s", "0ms"]),
            ],
            // 3: other dimensions
            vec![
                fam(Num, &["1s", "1000ms", "1.0s"]),
                fam(Num, &["1ms"]),
                fam(Num, &["1turn", "360deg", "400grad"]),
                fam(Num, &["1deg"]),
                fam(Num, &["1kHz", "1000Hz"]),
                fam(Num, &["1dppx", "96dpi"]),
            ],
            // 4: one half
            vec![
                fam(Num, &["0.5", ".5", "0.50"]),
                fam(Num, &["50%"]),
                fam(Num, &["0.5px", ".5px"]),
                fam(Num, &["0.4999999999"]),
            ],
            // 5: computed numbers
            vec![
                fam(NumExpr, &["(1px * 1in)", "(1in * 1px)"]),
                fam(NumExpr, &["(96px * 1px)"]),
                fam(NumExpr, &["math.div(1px, 1s)", "math.div(1000px, 1000s)"]),
                fam(NumExpr, &["math.div(96px, 1s)", "math.div(1in, 1s)"]),
                fam(NaN, &["math.div(0, 0)"]),
                fam(NumExpr, &["math.div(1, 0)"]),
                fam(NumExpr, &["math.div(-1, 0)"]),
            ],
            // 6: strings
            vec![
                fam(Str, &["a", "\"a\"", "'a'", "unquote(\"a\")"]),
                fam(Str, &["b", "\"b\""]),
                fam(Str, &["c", "\"c\""]),
                fam(Str, &["\"a b\"", "unquote(\"a b\")", "'a b'"]),
                fam(Str, &["\"\"", "unquote(\"\")", "''"]),
                fam(Str, &["\"A\"", "A"]),
                fam(Str, &["\"red\"", "unquote(\"red\")"]),
                fam(Str, &["\"true\"", "unquote(\"true\")"]),
                fam(Str, &["\"null\"", "unquote(\"null\")"]),
                fam(Str, &["\"a, b\"", "unquote(\"a, b\")"]),
            ],
            // 7: colours
            vec![
                fam(Color, &["red", "#f00", "#ff0000", "#FF0000", "rgb(255, 0, 0)", "rgba(255, 0, 0, 1)", "hsl(0, 100%, 50%)", "#ff0000ff"]),
                fam(Color, &["rgba(255, 0, 0, 0.5)", "rgba(red, 0.5)", "hsla(0, 100%, 50%, 0.5)"]),
                fam(Color, &["#ff000080"]),
                fam(Color, &["transparent", "rgba(0, 0, 0, 0)"]),
                fam(Color, &["rgba(0, 0, 255, 0)"]),
                fam(Color, &["blue", "#00f", "hsl(240, 100%, 50%)"]),
                fam(Color, &["#ff0001"]),
                fam(Color, &["rgb(255, 0, 0.4)"]),
                fam(Color, &["rgb(255, 0, 0.6)"]),
                fam(Color, &["rgba(255, 0, 0, 0.6)"]),
                // different HSL channels, same 8-bit RGB colour (== is decided on the RGB channels)
                fam(Color, &["#808080", "hsl(0, 0%, 50%)", "hsl(120, 0%, 50%)", "grey"]),
                fam(Color, &["rgb(255, 1, 1)", "hsl(0, 100%, 50.1%)", "hsl(0, 100%, 50.15%)"]),
                fam(Color, &["black", "hsl(0, 50%, 0%)", "hsl(200, 0%, 0%)", "#000"]),
            ],
            // 8: singletons
            vec![
                fam(Null, &["null"]),
                fam(Bool, &["true", "(not false)"]),
                fam(Bool, &["false", "(not true)"]),
            ],
            // 9: function references
            vec![
                fam(FnRef, &["get-function(\"lighten\")", "get-function(lighten)", "meta.get-function(\"lighten\")"]),
                fam(FnRef, &["get-function(\"darken\")"]),
                fam(FnRef, &["get-function(\"args\")", "meta.get-function(\"args\")"]),
                fam(FnRef, &["get-function(\"div\", $module: \"math\")"]),
            ],
            // 10: calculations
            vec![
                fam(Calc, &["calc(1px + 1%)", "calc(1px  +  1%)", "calc((1px + 1%))"]),
                fam(Calc, &["calc(1% + 1px)"]),
                fam(Calc, &["calc(1px + 2%)"]),
                fam(Calc, &["calc(1px - 1%)"]),
                fam(Calc, &["min(1px, 1%)"]),
                fam(Calc, &["max(1px, 1%)"]),
                fam(Calc, &["calc(var(--a))"]),
            ],
        ]
    })
}

/// expr -> (cluster, family)
fn atom_index() -> &'static HashMap<&'static str, (usize, usize)> {
    static T: OnceLock<HashMap<&'static str, (usize, usize)>> = OnceLock::new();
    T.get_or_init(|| {
        let mut m = HashMap::new();
        for (ci, c) in clusters().iter().enumerate() {
            for (fi, f) in c.iter().enumerate() {
                for e in &f.members {
                    m.insert(*e, (ci, fi));
                }
            }
        }
        m
    })
}

/// (cluster, family) of an atom expression of the table
pub fn family_of(e: &str) -> Option<(usize, usize)> {
    atom_index().get(e).copied()
}

/// families whose members are safe as keys of map *literals inside universe elements*: pairwise
/// unequal under any reading of the documentation
fn literal_key_families() -> Vec<(usize, usize)> {
    ["a", "b", "c", "1", "2", "1px", "red", "null"]
        .iter()
        .map(|e| *atom_index().get(e).expect("key family"))
        .collect()
}

fn atom_at(c: usize, f: usize, m: usize) -> V {
    let fam = &clusters()[c][f];
    atom(fam.k, fam.members[m % fam.members.len()])
}

// ---------------------------------------------------------------------------------------------
// deterministic respelling / near-miss transformations driven by a small LCG

pub struct Lcg(pub u64);
impl Lcg {
    pub fn next(&mut self, n: usize) -> usize {
        self.0 = self.0.wrapping_mul(6364136223846793005).wrapping_add(1442695040888963407);
        if n == 0 {
            0
        } else {
            ((self.0 >> 33) as usize) % n
        }
    }
    pub fn coin(&mut self) -> bool {
        self.next(2) == 1
    }
}

/// another spelling of (what the documentation calls) the same value
pub fn respell(v: &V, r: &mut Lcg) -> V {
    match v {
        V::Atom { e, .. } => match atom_index().get(e.as_str()) {
            Some(&(c, f)) => {
                let n = clusters()[c][f].members.len();
                atom_at(c, f, r.next(n))
            }
            None => v.clone(),
        },
        V::List { items, comma, br } => V::List {
            items: items.iter().map(|i| if r.coin() { respell(i, r) } else { i.clone() }).collect(),
            comma: *comma,
            br: *br,
        },
        V::Args(items) => V::Args(items.iter().map(|i| if r.coin() { respell(i, r) } else { i.clone() }).collect()),
        V::Map(es) => {
            let mut es: Vec<(V, V)> = es
                .iter()
                .map(|(k, v)| (respell(k, r), if r.coin() { respell(v, r) } else { v.clone() }))
                .collect();
            if es.len() > 1 {
                let by = r.next(es.len());
                es.rotate_left(by);
                if r.coin() {
                    es.reverse();
                }
            }
            V::Map(es)
        }
        V::EmptyMap => V::EmptyMap,
    }
}

/// a value that differs in exactly one aspect
pub fn near_miss(v: &V, r: &mut Lcg) -> V {
    match v {
        V::Atom { e, .. } => match atom_index().get(e.as_str()) {
            Some(&(c, f)) => {
                let nf = clusters()[c].len();
                if nf < 2 {
                    return v.clone();
                }
                let f2 = (f + 1 + r.next(nf - 1)) % nf;
                let n = clusters()[c][f2].members.len();
                atom_at(c, f2, r.next(n))
            }
            None => v.clone(),
        },
        V::List { items, comma, br } => {
            let mut items = items.clone();
            let (mut comma, mut br) = (*comma, *br);
            match r.next(6) {
                0 => comma = !comma,
                1 => br = !br,
                2 => {
                    items.pop();
                }
                3 => items.push(atom(K::Str, "c")),
                4 if !items.is_empty() => {
                    let i = r.next(items.len());
                    items[i] = near_miss(&items[i], r);
                }
                _ => return V::Args(items),
            }
            if items.is_empty() {
                comma = false;
            }
            V::List { items, comma, br }
        }
        V::Args(items) => match r.next(3) {
            0 => V::List { comma: !items.is_empty(), items: items.clone(), br: false },
            1 if !items.is_empty() => {
                let mut items = items.clone();
                let i = r.next(items.len());
                items[i] = near_miss(&items[i], r);
                V::Args(items)
            }
            _ => {
                let mut items = items.clone();
                items.push(atom(K::Str, "c"));
                V::Args(items)
            }
        },
        V::Map(es) => {
            let mut es = es.clone();
            match r.next(3) {
                0 if !es.is_empty() => {
                    let i = r.next(es.len());
                    es[i].1 = near_miss(&es[i].1, r);
                }
                1 if es.len() > 1 => {
                    es.pop();
                }
                _ => {
                    // add an entry with a key family not used yet
                    for (c, f) in literal_key_families() {
                        let used = es.iter().any(|(k, _)| match k {
                            V::Atom { e, .. } => atom_index().get(e.as_str()) == Some(&(c, f)),
                            _ => false,
                        });
                        if !used {
                            es.push((atom_at(c, f, 0), atom(K::Num, "3")));
                            break;
                        }
                    }
                }
            }
            V::Map(es)
        }
        V::EmptyMap => V::List { items: vec![], comma: false, br: false },
    }
}

// ---------------------------------------------------------------------------------------------
// strategies

/// any atom of the table
pub fn any_atom() -> impl Strategy<Value = V> {
    (any::<u16>(), any::<u16>(), any::<u16>()).prop_map(|(c, f, m)| {
        let cl = clusters();
        let ci = idx(c, cl.len());
        let fi = idx(f, cl[ci].len());
        let mi = idx(m, cl[ci][fi].members.len());
        atom_at(ci, fi, mi)
    })
}

fn literal_key() -> impl Strategy<Value = (usize, V)> {
    (any::<u16>(), any::<u16>()).prop_map(|(f, m)| {
        let fams = literal_key_families();
        let i = idx(f, fams.len());
        let (c, fi) = fams[i];
        let n = clusters()[c][fi].members.len();
        (i, atom_at(c, fi, idx(m, n)))
    })
}

fn dedupe_entries(es: Vec<((usize, V), V)>) -> Vec<(V, V)> {
    let mut seen = vec![];
    let mut out = vec![];
    for ((fi, k), v) in es {
        if seen.contains(&fi) {
            continue;
        }
        seen.push(fi);
        out.push((k, v));
    }
    out
}

/// a seed value: atoms, lists, maps, argument lists, nested up to depth 3
pub fn seed_value() -> BoxedStrategy<V> {
    let leaf = prop_oneof![
        12 => any_atom(),
        1 => Just(V::EmptyMap),
        1 => Just(V::List { items: vec![], comma: false, br: false }),
        1 => Just(V::List { items: vec![], comma: false, br: true }),
    ];
    leaf.prop_recursive(3, 12, 3, |inner| {
        prop_oneof![
            4 => (proptest::collection::vec(inner.clone(), 1..4), any::<bool>(), any::<bool>())
                .prop_map(|(items, comma, br)| V::List { items, comma, br }),
            3 => proptest::collection::vec((literal_key(), inner.clone()), 1..4)
                .prop_map(|es| V::Map(dedupe_entries(es))),
            2 => proptest::collection::vec(inner, 0..3).prop_map(V::Args),
        ]
    })
    .boxed()
}

fn dedupe(vs: Vec<V>) -> Vec<V> {
    let mut seen = std::collections::HashSet::new();
    let mut out = vec![];
    for v in vs {
        if seen.insert(v.expr()) {
            out.push(v);
        }
    }
    out
}

/// seed + respellings + near misses
pub fn group(max_variants: usize) -> impl Strategy<Value = Vec<V>> {
    (seed_value(), proptest::collection::vec((any::<u64>(), 0u8..3), 1..=max_variants)).prop_map(|(seed, ws)| {
        let mut out = vec![seed.clone()];
        for (w, kind) in ws {
            let mut r = Lcg(w);
            let nv = match kind {
                0 | 1 => respell(&seed, &mut r),
                _ => near_miss(&seed, &mut r),
            };
            out.push(nv);
        }
        out
    })
}

/// a random universe: 6..13 groups, textually distinct
pub fn universe() -> impl Strategy<Value = Vec<V>> {
    proptest::collection::vec(group(4), 6..14).prop_map(|gs| dedupe(gs.into_iter().flatten().collect()))
}

/// a key pool for map sequences: 2..4 groups, 3..9 textually distinct keys
pub fn key_pool() -> impl Strategy<Value = Vec<V>> {
    proptest::collection::vec(group(3), 2..4).prop_map(|gs| {
        let mut v = dedupe(gs.into_iter().flatten().collect());
        v.truncate(9);
        v
    })
}

// ---------------------------------------------------------------------------------------------
// the fixed universe

fn s(e: &str) -> V {
    atom(K::Str, e)
}
fn n(e: &str) -> V {
    atom(K::Num, e)
}
fn col(e: &str) -> V {
    atom(K::Color, e)
}
fn list(items: Vec<V>, comma: bool, br: bool) -> V {
    V::List { items, comma, br }
}

pub fn fixed_structured() -> Vec<V> {
    let a = || s("a");
    let b = || s("b");
    let c = || s("c");
    vec![
        // lists differing in separator / brackets / length / spelling of the items
        list(vec![a(), b()], false, false),
        list(vec![a(), b()], true, false),
        list(vec![a(), b()], false, true),
        list(vec![a(), b()], true, true),
        list(vec![a(), s("\"b\"")], false, false),
        list(vec![a(), b(), c()], false, false),
        list(vec![a(), b(), c()], true, false),
        list(vec![a()], true, false),
        list(vec![a()], false, true),
        list(vec![a()], true, true),
        list(vec![a()], false, false),
        list(vec![n("1px"), n("96px")], false, false),
        list(vec![n("1.0px"), n("1in")], false, false),
        list(vec![n("1px"), n("96px")], true, false),
        list(vec![n("1"), n("2")], false, false),
        list(vec![n("1"), n("2")], true, false),
        list(vec![n("1"), n("-0")], false, false),
        list(vec![n("1"), n("0")], false, false),
        list(vec![col("red"), col("blue")], false, false),
        list(vec![col("#f00"), col("#00f")], false, false),
        // nested
        list(vec![list(vec![a(), b()], false, false), c()], false, false),
        list(vec![a(), list(vec![b(), c()], false, false)], false, false),
        list(vec![list(vec![a(), b()], true, false), c()], true, false),
        list(vec![list(vec![a(), b()], true, false), c()], false, false),
        list(vec![list(vec![a(), s("'b'")], true, false), s("\"c\"")], false, false),
        list(vec![list(vec![a(), b()], false, true), c()], false, false),
        // empties
        list(vec![], false, false),
        list(vec![], false, true),
        V::EmptyMap,
        list(vec![list(vec![], false, false)], true, false),
        // maps
        V::Map(vec![(a(), n("1")), (b(), n("2"))]),
        V::Map(vec![(b(), n("2")), (a(), n("1"))]),
        V::Map(vec![(s("\"a\""), n("1.0")), (b(), n("2"))]),
        V::Map(vec![(a(), n("1"))]),
        V::Map(vec![(a(), n("1")), (b(), n("3"))]),
        V::Map(vec![(a(), n("1")), (c(), n("2"))]),
        V::Map(vec![(a(), V::Map(vec![(s("x"), n("1")), (s("y"), n("2"))]))]),
        V::Map(vec![(a(), V::Map(vec![(s("y"), n("2")), (s("x"), n("1"))]))]),
        V::Map(vec![(a(), V::Map(vec![(s("y"), n("2"))]))]),
        V::Map(vec![(n("96px"), col("red"))]),
        V::Map(vec![(n("1in"), col("#f00"))]),
        V::Map(vec![(a(), list(vec![n("1"), n("2")], false, false))]),
        V::Map(vec![(a(), list(vec![n("1"), n("2")], true, false))]),
        // a list that looks like a map's entry list
        list(vec![list(vec![a(), n("1")], false, false), list(vec![b(), n("2")], false, false)], true, false),
        // argument lists
        V::Args(vec![a(), b()]),
        V::Args(vec![a(), s("\"b\"")]),
        V::Args(vec![]),
        V::Args(vec![a()]),
        V::Args(vec![n("1px"), n("96px")]),
        V::Args(vec![n("1.0px"), n("1in")]),
        V::Args(vec![list(vec![a(), b()], true, false)]),
        list(vec![V::Args(vec![a(), b()]), c()], false, false),
        V::Map(vec![(a(), V::Args(vec![n("1"), n("2")]))]),
    ]
}

/// the fixed universe: every member of every atom family (minus the deliberate window family) + the
/// structured values above
pub fn fixed_universe() -> Vec<V> {
    let mut out = vec![];
    for c in clusters() {
        for f in c {
            for m in &f.members {
                if *m == "1.0000000000001in" {
                    continue;
                }
                out.push(atom(f.k, m));
            }
        }
    }
    out.extend(fixed_structured());
    dedupe(out)
}

/// intended equivalence classes of the atoms of the fixed universe (generator bias only):
/// groups of textually different keys, each group = members of one family
pub fn fixed_key_groups() -> Vec<Vec<V>> {
    let mut out = vec![];
    for c in clusters() {
        for f in c {
            if f.k == K::NaN {
                continue;
            }
            let ms: Vec<V> = f.members.iter().filter(|m| **m != "1.0000000000001in").map(|m| atom(f.k, m)).collect();
            if !ms.is_empty() {
                out.push(ms);
            }
        }
    }
    // structured groups
    let st = fixed_structured();
    let pick = |is: &[usize]| -> Vec<V> { is.iter().map(|i| st[*i].clone()).collect() };
    out.push(pick(&[0, 4]));
    out.push(pick(&[1, 44, 45]));
    out.push(pick(&[11, 12]));
    out.push(pick(&[18, 19]));
    out.push(pick(&[30, 31, 32]));
    out.push(pick(&[36, 37]));
    out.push(pick(&[39, 40]));
    out.push(pick(&[26, 28]));
    out
}

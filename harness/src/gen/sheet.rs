//! Value-heavy stylesheet generator (SCSS source text) for C05/C06/C18/C20: rules, nested rules,
//! at-rules, comments, custom properties and declaration values that exercise the serializer –
//! strings with quotes/escapes/non-ASCII, numbers, colours in every spelling, lists, urls,
//! `!important`, unicode-range, interpolation into selectors / property names / strings, and
//! SassScript that *measures* interpolated text. Every output is made of CSS-representable values.

use super::chooser::Chooser;
use serde::{Deserialize, Serialize};

#[derive(Clone, Debug, Default, Serialize, Deserialize)]
pub struct GenSheet {
    pub scss: String,
    pub features: Vec<String>,
    /// (property name, exact string value) of declarations `s<k>: "<random string>"`: the output must
    /// carry a single string token with exactly that value
    #[serde(default)]
    pub expect_strings: Vec<(String, String)>,
}

#[derive(Clone, Copy, Debug)]
pub struct SheetOpts {
    /// allow interpolating fractional numbers / colours / comma lists into quoted strings,
    /// selectors, property names and measuring functions (known finding C06 #15: the text then
    /// depends on the output style)
    pub style_dependent_interp: bool,
    /// allow Sass features whose output is not plain CSS-safe when re-read as SCSS (e.g. `a/b`)
    pub scss_reread_safe: bool,
}

impl Default for SheetOpts {
    fn default() -> Self {
        SheetOpts {
            style_dependent_interp: false,
            scss_reread_safe: false,
        }
    }
}

struct G<'a, 'b> {
    c: &'a mut Chooser<'b>,
    o: SheetOpts,
    feats: Vec<String>,
    depth: usize,
    expect_strings: Vec<(String, String)>,
}

const SELECTORS: &[&str] = &[
    "a", ".b", "#c", "a > b", "a + b", "a ~ b", "a b", ".x.y", "a:hover", "a::before",
    "[href=\"x\"]", "a:not(.b)", "*", ".é", "a:nth-child(2n+1)", "a, b", ".x, .y > z", "h1, h2, h3",
    "[data-x='y z']", "a:is(.b, .c)", ".\\31 x", "input[type=text]:focus", "ul li:first-child",
];

const PROPS: &[&str] = &[
    "color", "margin", "content", "font-family", "background", "width", "x", "border-color",
    "transition", "grid-template-areas", "font", "-webkit-box-shadow",
];

const INT_NUMS: &[&str] = &["0", "1", "2", "10", "-3", "100", "1px", "2em", "50%", "3s", "90deg", "-1px"];
const FRAC_NUMS: &[&str] = &[
    "0.5", ".5", "0.25", "1.5", "1.125", "10.0", "-0.5", "0.5px", ".75em", "33.3333333333%",
    "0.1 + 0.2", "math.div(1, 3)", "math.div(2, 3) * 1px", "1 - .5", "1.005", "0.0000000001",
    "123456789.123", "math.div(10, 4)", "2 * 0.05", "1e-3", "0.99999",
];
const INT_EXPRS: &[&str] = &["1px + 2px", "2 * 3", "10 % 3", "math.div(6, 2)", "(1 + 2) * 3", "-(2px)", "+1", "1 - 3"];
const COLORS: &[&str] = &[
    "red", "blue", "rebeccapurple", "transparent", "#f00", "#ff0000", "#ABCDEF", "#abcd", "#aabbcc80",
    "rgb(255, 0, 0)", "rgba(0, 0, 0, 0.5)", "hsl(120, 100%, 50%)", "hsla(10, 20%, 30%, 0.4)",
    "lighten(red, 10%)", "mix(red, blue)", "darken(#abcdef, 7%)", "rgba(red, 0.25)", "invert(#123456)",
    "#ffffff", "#000", "white", "rgb(1, 2, 3)", "hsl(0, 0%, 50%)", "adjust-hue(#f00, 33deg)",
    "#ffff00", "yellow", "#ff00ff", "fuchsia", "tan", "#d2b48c",
];
const STRINGS: &[&str] = &[
    "\"abc\"", "'a\"b'", "\"a'b\"", "\"a\\\\b\"", "\"é\"", "\"😀\"", "\"a\\62 c\"", "\"\\a\"", "\"\"",
    "quote(abc)", "\"x y\"", "\"a\" + \"b\"", "\"a\" + 1", "\"line\\a break\"", "\"tab\\9 x\"",
    "\"a\\\"b\"", "'\\''", "\"\\\\\"", "\"/* no comment */\"", "\"// x\"", "\"#{$s}x\"", "\"{}\"",
    "\"a;b\"", "\"\\1F600\"", "\"e\\301\"", "'\"'", "\"$x\"", "\"a}b{\"", "to-upper-case(\"ab\")",
    "str-slice(\"abcdef\", 2, 4)", "\"\\0\"", "\"\\7f\"", "\"\\fffd x\"",
];
const UNQUOTED: &[&str] = &[
    "abc", "unquote(\"x y\")", "sans-serif", "a-#{$s}", "#{$s}-b", "x#{1 + 1}y", "auto", "inherit",
    "unquote(\"é\")", "bold", "none",
];
const LISTS: &[&str] = &[
    "1px 2px", "a, b", "(1, 2)", "[a b]", "[a, b]", "1px 2px, 3px 4px", "1px 2px 3px 4px", "(a b) (c d)",
    "join(a b, c d)", "append(1 2, 3, comma)", "$l", "nth($l, 2)", "1px solid red", "a b, c",
    "\"x\", \"y\"", "0 0 0 1px rgba(0, 0, 0, 0.5)", "[]", "(a,)", "[a]", "1px -2px", "3 -4 5", "0 -1px 2px -3px", "a -b", "1 +2",
    "-1px -2px", "$i -1", "1em - 2px", "1 -$i", "10px -#{$i}px",
];
const URLS: &[&str] = &[
    "url(a.png)", "url(\"a b.png\")", "url(#{$s}.png)", "url(data:image/png;base64,AAAA==)",
    "url('x.png')", "url(http://e.com/x?y=1&z=2)",
];
const SPECIAL: &[&str] = &[
    "var(--x)", "calc(1px + 2%)", "env(safe-area-inset-top)", "translate(1px, 2px)", "foo(a b, c)",
    "var(--x, 1px)", "calc(100% - #{$n}px)", "min(1px, 2%)", "max(1vw, 2px)", "clamp(1px, 2vw, 3px)",
    "linear-gradient(to right, red 0%, blue 100%)", "attr(data-x)", "counter(n)", "rotate(45deg)",
    "cubic-bezier(0.1, 0.7, 1, 0.1)", "calc(1px * 2)", "calc(10px + 5px)",
];
/// interpolation payloads whose text does not depend on the output style
const INTERP_SAFE: &[&str] = &["$i", "$s", "1 + 1", "abc", "$i * 2", "a b", "10px", "nth($l, 1)", "\"q\"", "true", "null"];
/// payloads whose text differs between styles (fraction below 1, colours, comma lists)
const INTERP_STYLE_DEP: &[&str] = &["0.5", "$n", "#ff0000", "$c", "(a, b)", "math.div(1, 4)", "rgba(0, 0, 0, 0.5)", "1px, 2px"];

/// characters a generated string may contain: letters incl. the hex letters, digits, space,
/// punctuation that matters to a serializer, control characters, non-ASCII
const STR_CHARS: &[char] = &[
    'a', 'b', 'c', 'f', 'A', 'F', 'g', 'z', '0', '9', ' ', '-', '_', '"', '\'', '\\', '/', '*', '{', '}', ';', ':', '#', '$', '@',
    '(', ')', '\n', '\t', '\r', '\u{1}', '\u{8}', '\u{b}', '\u{c}', '\u{1f}', '\u{7f}', '\u{a0}', 'é', '日', '😀', '\u{301}', '\u{feff}',
];

/// values for attribute selectors: identifiers and strings that must stay quoted
const ATTR_VALUES: &[&str] = &[
    "x", "ab", "-1", "-", "1a", "a b", "", "--x", "-a", "é", "a.b", "#x", "a\\\"b", "0", "_a", "-2x", "a-b", "A",
];

impl<'a, 'b> G<'a, 'b> {
    /// a quoted string literal over STR_CHARS, written so that the SCSS source means exactly those
    /// characters (control characters as hex escapes terminated by a space)
    fn random_string(&mut self) -> (String, String) {
        let n = self.c.pick(6);
        let mut lit = String::from("\"");
        let mut value = String::new();
        for _ in 0..n {
            let ch = *self.c.of(&STR_CHARS.iter().collect::<Vec<_>>());
            value.push(ch);
            match ch {
                '"' => lit.push_str("\\\""),
                '\\' => lit.push_str("\\\\"),
                '#' => lit.push_str("\\#"),
                c if (c as u32) < 0x20 || c as u32 == 0x7f => lit.push_str(&format!("\\{:x} ", c as u32)),
                c => lit.push(c),
            }
        }
        lit.push('"');
        (lit, value)
    }

    /// an @supports condition: declarations, `not`, and/or chains, parenthesised sub-conditions on
    /// either side (`((a: b) or (c: d)) and (e: f)`, `(not (a: b)) and (c: d)`)
    fn supports_cond(&mut self, depth: usize) -> String {
        let atom = |g: &mut Self| format!("({}: {})", g.c.of(&["display", "a", "--x", "gap"]), g.c.of(&["grid", "b", "1px", "0"]));
        if depth >= 2 {
            return atom(self);
        }
        match self.c.pick(5) {
            0 => atom(self),
            1 => format!("not {}", self.supports_operand(depth + 1)),
            2 | 3 => {
                let op = if self.c.flag() { "and" } else { "or" };
                let n = 2 + self.c.pick(2);
                (0..n).map(|_| self.supports_operand(depth + 1)).collect::<Vec<_>>().join(&format!(" {} ", op))
            }
            _ => atom(self),
        }
    }

    fn supports_operand(&mut self, depth: usize) -> String {
        let inner = self.supports_cond(depth);
        if inner.starts_with('(') && !inner.contains(") and (") && !inner.contains(") or (") {
            inner
        } else {
            format!("({})", inner)
        }
    }

    fn feat(&mut self, f: &str) {
        if !self.feats.iter().any(|x| x == f) {
            self.feats.push(f.to_string());
        }
    }

    fn interp_payload(&mut self) -> String {
        if self.o.style_dependent_interp && self.c.chance(1, 2) {
            self.feat("interp-style-dependent");
            self.c.of(INTERP_STYLE_DEP).to_string()
        } else {
            self.c.of(INTERP_SAFE).to_string()
        }
    }

    fn value(&mut self, prop: &str) -> String {
        if prop == "unicode-range" {
            self.feat("unicode-range");
            return self.c.of(&["U+0-7F", "U+26", "U+0025-00FF", "U+4??", "U+0-7F, U+A0-FF"]).to_string();
        }
        if prop == "content" && self.c.chance(2, 3) {
            self.feat("string");
            return self.c.of(STRINGS).to_string();
        }
        match self.c.pick(12) {
            0 => self.c.of(INT_NUMS).to_string(),
            1 => {
                self.feat("fraction");
                self.c.of(FRAC_NUMS).to_string()
            }
            2 => {
                self.feat("color");
                self.c.of(COLORS).to_string()
            }
            3 => {
                self.feat("string");
                if self.c.chance(1, 2) {
                    self.feat("random-string");
                    self.random_string().0
                } else {
                    self.c.of(STRINGS).to_string()
                }
            }
            4 => self.c.of(UNQUOTED).to_string(),
            5 => {
                self.feat("list");
                self.c.of(LISTS).to_string()
            }
            6 => {
                self.feat("url");
                self.c.of(URLS).to_string()
            }
            7 => {
                self.feat("special-fn");
                self.c.of(SPECIAL).to_string()
            }
            8 => self.c.of(INT_EXPRS).to_string(),
            9 => {
                // interpolation into a quoted string, then measured
                self.feat("measure");
                let p = self.interp_payload();
                match self.c.pick(6) {
                    0 => format!("str-length(\"#{{{}}}\")", p),
                    1 => format!("str-index(\"x#{{{}}}y\", \"y\")", p),
                    2 => format!("if(\"#{{{}}}\" == \"#{{{}}}\", same, differ)", p, self.interp_payload()),
                    3 => format!("\"<#{{{}}}>\"", p),
                    4 => format!("str-length(inspect({}))", p),
                    _ => format!("to-upper-case(\"v#{{{}}}\")", p),
                }
            }
            10 => {
                self.feat("color");
                self.feat("list");
                format!("{} {}", self.c.of(INT_NUMS), self.c.of(COLORS))
            }
            _ => {
                self.feat("comma-list");
                format!("{}, {}", self.c.of(UNQUOTED), self.c.of(FRAC_NUMS))
            }
        }
    }

    fn decl(&mut self, ind: &str) -> String {
        if self.c.chance(1, 6) {
            // a string whose exact value is known: checked against the output token
            self.feat("random-string");
            let (lit, value) = self.random_string();
            let name = format!("s{}", self.expect_strings.len());
            self.expect_strings.push((name.clone(), value));
            return format!("{}{}: {};\n", ind, name, lit);
        }
        let prop = self.c.of(PROPS).to_string();
        let name = match self.c.pick(8) {
            0 => {
                self.feat("interp-prop-name");
                format!("{}-#{{{}}}", prop, self.c.of(&["$s", "$i", "x", "1 + 1"]))
            }
            1 if self.o.style_dependent_interp => {
                self.feat("interp-style-dependent");
                format!("{}-#{{{}}}", prop, self.c.of(INTERP_STYLE_DEP))
            }
            _ => prop.clone(),
        };
        let v = self.value(&prop);
        let imp = if self.c.chance(1, 8) {
            self.feat("important");
            " !important"
        } else {
            ""
        };
        format!("{}{}: {}{};\n", ind, name, v, imp)
    }

    fn comment(&mut self, ind: &str) -> String {
        self.feat("comment");
        match self.c.pick(6) {
            0 => format!("{}/* loud */\n", ind),
            1 => format!("{}// silent\n", ind),
            2 => format!("{}/*! preserved */\n", ind),
            3 => format!("{}/* multi\n{}   line */\n", ind, ind),
            4 => format!("{}/* #{{1 + 1}} é */\n", ind),
            _ => format!("{}/*!keep #{{$i}}*/\n", ind),
        }
    }

    fn selector(&mut self) -> String {
        let s = if self.c.chance(1, 6) {
            self.feat("attribute-selector");
            let op = self.c.of(&["=", "~=", "|=", "^=", "$=", "*="]);
            let v = self.c.of(ATTR_VALUES);
            let q = if self.c.flag() { '"' } else { '\'' };
            let flag = if self.c.chance(1, 5) { " i" } else { "" };
            format!("{}[data-v{}{}{}{}{}]", self.c.of(&["", "a", ".k"]), op, q, if q == '\'' { v.replace("\\\"", "\"") } else { v.to_string() }, q, flag)
        } else {
            self.c.of(SELECTORS).to_string()
        };
        match self.c.pick(10) {
            0 => {
                self.feat("interp-selector");
                match self.c.pick(4) {
                    0 => format!("#{{$s}}[a] {}", s),
                    1 => format!(".x-#{{$s}}:hover, {}", s),
                    2 => format!("#{{$s}} > {}", s),
                    _ => format!(".p-#{{{}}} {}", self.c.of(&["$s", "$i", "abc", "1 + 1"]), s),
                }
            }
            1 if self.o.style_dependent_interp => {
                self.feat("interp-style-dependent");
                format!("[data-v=\"#{{{}}}\"] {}", self.c.of(INTERP_STYLE_DEP), s)
            }
            _ => s,
        }
    }

    fn body(&mut self, ind: &str, nested_ok: bool) -> String {
        let mut s = String::new();
        let n = 1 + self.c.pick(5);
        for _ in 0..n {
            match self.c.pick(14) {
                0 | 1 | 2 | 3 | 4 | 5 | 6 => s.push_str(&self.decl(ind)),
                7 => s.push_str(&self.comment(ind)),
                8 => {
                    self.feat("custom-property");
                    let raw = self.c.of(&[
                        "1px", " { a: b }", "red", "  spaced   out ", "\"str\"", "#{$i}px", "calc(1px + 2px)",
                        "a, b", "0.50", "#FF0000", "[1,2]", "url(x)", "é",
                    ]);
                    s.push_str(&format!("{}--v{}: {};\n", ind, self.c.pick(3), raw));
                }
                9 => {
                    self.feat("nested-props");
                    s.push_str(&format!(
                        "{}font: {{\n{}  family: {};\n{}  size: {};\n{}}}\n",
                        ind,
                        ind,
                        self.c.of(UNQUOTED),
                        ind,
                        self.c.of(INT_NUMS),
                        ind
                    ));
                }
                10 | 11 if nested_ok && self.depth < 3 => {
                    self.feat("nested-rule");
                    self.depth += 1;
                    let sel = match self.c.pick(6) {
                        0 => "&:hover".to_string(),
                        1 => "&-suffix".to_string(),
                        2 => ".ctx &".to_string(),
                        3 => "& + &".to_string(),
                        _ => self.selector(),
                    };
                    let inner = self.body(&format!("{}  ", ind), true);
                    s.push_str(&format!("{}{} {{\n{}{}}}\n", ind, sel, inner, ind));
                    self.depth -= 1;
                }
                12 if nested_ok && self.depth < 3 => {
                    self.feat("nested-at-rule");
                    self.depth += 1;
                    let q = self.c.of(&["screen", "(min-width: 100px)", "print and (orientation: landscape)", "screen, print"]);
                    let inner = self.body(&format!("{}  ", ind), false);
                    s.push_str(&format!("{}@media {} {{\n{}{}}}\n", ind, q, inner, ind));
                    self.depth -= 1;
                }
                _ => s.push_str(&self.decl(ind)),
            }
        }
        s
    }

    fn item(&mut self) -> String {
        match self.c.pick(12) {
            0 | 1 | 2 | 3 | 4 | 5 => {
                let sel = self.selector();
                let b = self.body("  ", true);
                format!("{} {{\n{}}}\n", sel, b)
            }
            6 => {
                self.feat("media");
                let q = self.c.of(&["screen", "(max-width: 600px)", "not print", "screen and (color), print", "only screen and (min-width: 10.5em)"]);
                let sel = self.selector();
                let b = self.body("    ", true);
                format!("@media {} {{\n  {} {{\n{}  }}\n}}\n", q, sel, b)
            }
            7 => {
                self.feat("supports");
                let sel = self.selector();
                let b = self.body("    ", false);
                let cond = self.supports_cond(0);
                format!("@supports {} {{\n  {} {{\n{}  }}\n}}\n", cond, sel, b)
            }
            8 => self.comment(""),
            9 => {
                self.feat("font-face");
                format!(
                    "@font-face {{\n  font-family: {};\n  src: {};\n  unicode-range: {};\n}}\n",
                    self.c.of(&["\"F\"", "F", "\"É f\""]),
                    self.c.of(URLS),
                    self.value("unicode-range")
                )
            }
            10 => {
                self.feat("keyframes");
                format!(
                    "@keyframes k{} {{\n  from {{\n    opacity: {};\n  }}\n  50.5% {{\n    opacity: {};\n  }}\n  to {{\n    opacity: 1;\n  }}\n}}\n",
                    self.c.pick(3),
                    self.c.of(&["0", "0.5", ".25"]),
                    self.c.of(&["0.75", "1", "math.div(1, 3)"])
                )
            }
            _ => {
                self.feat("unknown-at-rule");
                match self.c.pick(4) {
                    // a plain CSS import that reaches the document root from inside a rule: Sass hoists
                    // it above every rule (an @import after a style rule is ignored by CSS)
                    3 => {
                        self.feat("plain-css-import-via-at-root");
                        format!(".hoist {{\n  a: b;\n  @at-root {{\n    @import url(\"late{}.css\");\n  }}\n}}\n", self.c.pick(3))
                    }
                    0 => "@foo bar;\n".to_string(),
                    1 => format!("@foo #{{$s}} {{\n  a: b;\n}}\n"),
                    _ => "@page :first {\n  margin: 1in;\n}\n".to_string(),
                }
            }
        }
    }
}

pub fn gen_sheet(c: &mut Chooser, o: SheetOpts) -> GenSheet {
    let mut g = G {
        c,
        o,
        feats: vec![],
        depth: 0,
        expect_strings: vec![],
    };
    // the interpolated string is sometimes non-ASCII (byte length != character count)
    let sval = g.c.of(&["str", "str", "str", "éééé", "日本", "a😀b", "ééééééé"]);
    let mut s = format!("@use \"sass:math\";\n$i: 3;\n$n: 0.5;\n$c: #ff0000;\n$s: \"{}\";\n$l: 1px 2px 3px;\n", sval);
    if g.c.chance(1, 6) {
        g.feat("plain-css-import");
        s.insert_str(0, "@import url(\"x.css\");\n");
    }
    let n = 1 + g.c.pick(4);
    for _ in 0..n {
        s.push_str(&g.item());
    }
    GenSheet {
        scss: s,
        features: g.feats,
        expect_strings: g.expect_strings,
    }
}

//! Program generator `P` (DESIGN §1.5): typed AST over the Sass core, SCSS / indented-Sass
//! pretty-printers, and a tape-driven generator that produces well-typed, terminating programs by
//! construction (typed holes: the type of a variable is a function of its *name*, so every
//! assignment anywhere keeps it; reads only of names that are definitely defined lexically).
//!
//! The AST itself is untyped and total (the reference interpreter in `oracle::interp` evaluates any
//! AST and returns an error for ill-typed operations), so other properties can build programs by
//! hand as well.

use crate::engine::idx;
use proptest::prelude::*;
use serde::{Deserialize, Serialize};
use std::collections::BTreeMap;

// ------------------------------------------------------------------------------------------
// AST
// ------------------------------------------------------------------------------------------

#[derive(Clone, Copy, Debug, Serialize, Deserialize, PartialEq, Eq, Hash)]
pub enum Sep {
    Space,
    Comma,
}

#[derive(Clone, Copy, Debug, Serialize, Deserialize, PartialEq, Eq, Hash)]
pub enum BinOp {
    Or,
    And,
    Eq,
    Ne,
    Lt,
    Le,
    Gt,
    Ge,
    Add,
    Sub,
    Mul,
    Mod,
}

impl BinOp {
    /// Sass precedence, loosest = 1
    pub fn prec(self) -> u8 {
        match self {
            BinOp::Or => 1,
            BinOp::And => 2,
            BinOp::Eq | BinOp::Ne => 3,
            BinOp::Lt | BinOp::Le | BinOp::Gt | BinOp::Ge => 4,
            BinOp::Add | BinOp::Sub => 5,
            BinOp::Mul | BinOp::Mod => 6,
        }
    }
    pub fn text(self) -> &'static str {
        match self {
            BinOp::Or => "or",
            BinOp::And => "and",
            BinOp::Eq => "==",
            BinOp::Ne => "!=",
            BinOp::Lt => "<",
            BinOp::Le => "<=",
            BinOp::Gt => ">",
            BinOp::Ge => ">=",
            BinOp::Add => "+",
            BinOp::Sub => "-",
            BinOp::Mul => "*",
            BinOp::Mod => "%",
        }
    }
}

#[derive(Clone, Debug, Serialize, Deserialize, PartialEq, Eq, Hash)]
pub enum Part {
    Lit(String),
    E(Expr),
}

#[derive(Clone, Debug, Serialize, Deserialize, PartialEq, Eq, Hash)]
pub enum Expr {
    /// unitless number in thousandths (1500 = 1.5)
    Num(i64),
    Str { text: String, quoted: bool },
    Bool(bool),
    Null,
    /// variable name without `$`
    Var(String),
    List { items: Vec<Expr>, sep: Sep, bracketed: bool },
    Map(Vec<(Expr, Expr)>),
    Bin(BinOp, Box<Expr>, Box<Expr>),
    Neg(Box<Expr>),
    Not(Box<Expr>),
    /// math.div(e, k) with a literal integer divisor
    Div(Box<Expr>, i64),
    If(Box<Expr>, Box<Expr>, Box<Expr>),
    Call { name: String, args: Args },
    /// "a#{e}b" (quoted) or a-#{e} (unquoted; the first part is a literal identifier start)
    Interp { quoted: bool, parts: Vec<Part> },
    /// length(e)
    Length(Box<Expr>),
}

#[derive(Clone, Debug, Default, Serialize, Deserialize, PartialEq, Eq, Hash)]
pub struct Args {
    pub pos: Vec<Expr>,
    pub named: Vec<(String, Expr)>,
    pub rest: Option<Box<Expr>>,
    pub kwrest: Option<Box<Expr>>,
}

#[derive(Clone, Debug, Serialize, Deserialize, PartialEq, Eq, Hash)]
pub struct Param {
    pub name: String,
    pub default: Option<Expr>,
}

#[derive(Clone, Debug, Default, Serialize, Deserialize, PartialEq, Eq, Hash)]
pub struct Params {
    pub params: Vec<Param>,
    pub rest: Option<String>,
}

#[derive(Clone, Debug, Serialize, Deserialize, PartialEq, Eq, Hash)]
pub struct Sel {
    /// e.g. ".a"
    pub base: String,
    /// `.a-#{expr}`
    pub interp: Option<Expr>,
}

#[derive(Clone, Debug, Serialize, Deserialize, PartialEq, Eq, Hash)]
pub enum Stmt {
    Var { name: String, value: Expr, default: bool, global: bool },
    Decl { prop: String, value: Expr },
    Rule { sel: Sel, body: Vec<Stmt> },
    If { clauses: Vec<(Expr, Vec<Stmt>)>, els: Option<Vec<Stmt>> },
    For { var: String, from: Expr, to: Expr, inclusive: bool, body: Vec<Stmt> },
    Each { vars: Vec<String>, iter: Expr, body: Vec<Stmt> },
    While { cond: Expr, body: Vec<Stmt> },
    Function { name: String, params: Params, body: Vec<Stmt> },
    Return(Expr),
    Mixin { name: String, params: Params, body: Vec<Stmt> },
    Include { name: String, args: Args, using: Option<Params>, content: Option<Vec<Stmt>> },
    Content(Args),
    Debug { id: u32, value: Expr },
    Warn { id: u32, value: Expr },
}

#[derive(Clone, Debug, Default, Serialize, Deserialize, PartialEq, Eq, Hash)]
pub struct Program {
    pub stmts: Vec<Stmt>,
    /// number of @debug/@warn argument holes diverted away from (possibly) quoted strings
    #[serde(default)]
    pub diverted_logs: u32,
    /// number of rest splats restricted to comma-separated lists
    #[serde(default)]
    pub diverted_splats: u32,
    /// number of invocations with >= 2 named arguments generated without function calls
    #[serde(default)]
    pub diverted_named: u32,
}

impl Program {
    pub fn count_stmts(&self) -> usize {
        fn c(b: &[Stmt]) -> usize {
            b.iter()
                .map(|s| {
                    1 + match s {
                        Stmt::Rule { body, .. }
                        | Stmt::For { body, .. }
                        | Stmt::Each { body, .. }
                        | Stmt::While { body, .. }
                        | Stmt::Function { body, .. }
                        | Stmt::Mixin { body, .. } => c(body),
                        Stmt::If { clauses, els } => {
                            clauses.iter().map(|(_, b)| c(b)).sum::<usize>()
                                + els.as_ref().map(|b| c(b)).unwrap_or(0)
                        }
                        Stmt::Include { content, .. } => content.as_ref().map(|b| c(b)).unwrap_or(0),
                        _ => 0,
                    }
                })
                .sum()
        }
        c(&self.stmts)
    }
}

// ------------------------------------------------------------------------------------------
// Printing
// ------------------------------------------------------------------------------------------

pub fn fmt_milli(m: i64) -> String {
    let neg = m < 0;
    let a = m.unsigned_abs();
    let mut s = String::new();
    if neg {
        s.push('-');
    }
    s.push_str(&(a / 1000).to_string());
    let f = a % 1000;
    if f != 0 {
        let mut fs = format!("{:03}", f);
        while fs.ends_with('0') {
            fs.pop();
        }
        s.push('.');
        s.push_str(&fs);
    }
    s
}

const P_TOP: u8 = 0;
const P_UNARY: u8 = 7;
const P_ATOM: u8 = 8;

fn expr_prec(e: &Expr) -> u8 {
    match e {
        Expr::Bin(op, _, _) => op.prec(),
        Expr::Neg(_) | Expr::Not(_) => P_UNARY,
        Expr::Num(n) if *n < 0 => P_UNARY,
        _ => P_ATOM,
    }
}

/// print `e` in a position that requires precedence >= `min`
fn pe(e: &Expr, min: u8, out: &mut String) {
    let p = expr_prec(e);
    if p < min {
        out.push('(');
        pe(e, P_TOP, out);
        out.push(')');
        return;
    }
    match e {
        Expr::Num(n) => out.push_str(&fmt_milli(*n)),
        Expr::Str { text, quoted } => {
            if *quoted {
                out.push('"');
                out.push_str(text);
                out.push('"');
            } else {
                out.push_str(text);
            }
        }
        Expr::Bool(b) => out.push_str(if *b { "true" } else { "false" }),
        Expr::Null => out.push_str("null"),
        Expr::Var(n) => {
            out.push('$');
            out.push_str(n);
        }
        Expr::List { items, sep, bracketed } => {
            out.push(if *bracketed { '[' } else { '(' });
            for (i, it) in items.iter().enumerate() {
                if i > 0 {
                    out.push_str(if *sep == Sep::Comma { ", " } else { " " });
                }
                // space-list elements must be atoms (`1 -2`, `1 + 2 3` are not what they look like)
                pe(it, if *sep == Sep::Space { P_ATOM } else { P_TOP }, out);
            }
            if items.len() == 1 && *sep == Sep::Comma {
                out.push(',');
            }
            out.push(if *bracketed { ']' } else { ')' });
        }
        Expr::Map(kv) => {
            out.push('(');
            for (i, (k, v)) in kv.iter().enumerate() {
                if i > 0 {
                    out.push_str(", ");
                }
                pe(k, P_ATOM, out);
                out.push_str(": ");
                pe(v, P_TOP, out);
            }
            out.push(')');
        }
        Expr::Bin(op, l, r) => {
            // all binary operators are left-associative
            pe(l, op.prec(), out);
            out.push(' ');
            out.push_str(op.text());
            out.push(' ');
            pe(r, op.prec() + 1, out);
        }
        Expr::Neg(x) => {
            out.push('-');
            // `-f(1)` / `-length(..)` would lex as an identifier starting with `-`
            let bare = matches!(**x, Expr::Var(_)) || matches!(**x, Expr::Num(n) if n >= 0);
            if bare {
                pe(x, P_ATOM, out);
            } else {
                out.push('(');
                pe(x, P_TOP, out);
                out.push(')');
            }
        }
        Expr::Not(x) => {
            out.push_str("not ");
            pe(x, P_ATOM, out);
        }
        Expr::Div(x, k) => {
            out.push_str("math.div(");
            pe(x, P_TOP, out);
            out.push_str(", ");
            out.push_str(&k.to_string());
            out.push(')');
        }
        Expr::If(c, a, b) => {
            out.push_str("if(");
            pe(c, P_TOP, out);
            out.push_str(", ");
            pe(a, P_TOP, out);
            out.push_str(", ");
            pe(b, P_TOP, out);
            out.push(')');
        }
        Expr::Call { name, args } => {
            out.push_str(name);
            out.push('(');
            pargs(args, out);
            out.push(')');
        }
        Expr::Interp { quoted, parts } => {
            if *quoted {
                out.push('"');
            }
            for p in parts {
                match p {
                    Part::Lit(s) => out.push_str(s),
                    Part::E(e) => {
                        out.push_str("#{");
                        pe(e, P_TOP, out);
                        out.push('}');
                    }
                }
            }
            if *quoted {
                out.push('"');
            }
        }
        Expr::Length(x) => {
            out.push_str("length(");
            pe(x, P_TOP, out);
            out.push(')');
        }
    }
}

fn pargs(a: &Args, out: &mut String) {
    let mut first = true;
    let mut sepr = |out: &mut String| {
        if !first {
            out.push_str(", ");
        }
        first = false;
    };
    for e in &a.pos {
        sepr(out);
        pe(e, P_TOP, out);
    }
    for (n, e) in &a.named {
        sepr(out);
        out.push('$');
        out.push_str(n);
        out.push_str(": ");
        pe(e, P_TOP, out);
    }
    if let Some(r) = &a.rest {
        sepr(out);
        pe(r, P_ATOM, out);
        out.push_str("...");
    }
    if let Some(r) = &a.kwrest {
        sepr(out);
        pe(r, P_ATOM, out);
        out.push_str("...");
    }
}

pub fn print_expr(e: &Expr) -> String {
    let mut s = String::new();
    pe(e, P_TOP, &mut s);
    s
}

fn pparams(p: &Params, out: &mut String) {
    let mut first = true;
    for q in &p.params {
        if !first {
            out.push_str(", ");
        }
        first = false;
        out.push('$');
        out.push_str(&q.name);
        if let Some(d) = &q.default {
            out.push_str(": ");
            pe(d, P_TOP, out);
        }
    }
    if let Some(r) = &p.rest {
        if !first {
            out.push_str(", ");
        }
        out.push('$');
        out.push_str(r);
        out.push_str("...");
    }
}

fn psel(s: &Sel, out: &mut String) {
    out.push_str(&s.base);
    if let Some(e) = &s.interp {
        out.push_str("-#{");
        pe(e, P_TOP, out);
        out.push('}');
    }
}

/// Printed program: text and, for every @debug/@warn statement id, its 0-based line.
#[derive(Clone, Debug)]
pub struct Printed {
    pub text: String,
    pub lines: BTreeMap<u32, usize>,
}

struct Pr {
    out: String,
    line: usize,
    lines: BTreeMap<u32, usize>,
    sass: bool,
}

impl Pr {
    fn ln(&mut self, ind: usize, s: &str) {
        for _ in 0..ind {
            self.out.push_str("  ");
        }
        self.out.push_str(s);
        self.out.push('\n');
        self.line += 1;
    }
    /// header line of a block statement, then its body, then the closer
    fn block(&mut self, ind: usize, head: &str, body: &[Stmt]) {
        if self.sass {
            self.ln(ind, head);
            self.body(ind + 1, body);
        } else {
            self.ln(ind, &format!("{} {{", head));
            self.body(ind + 1, body);
            self.ln(ind, "}");
        }
    }
    fn body(&mut self, ind: usize, body: &[Stmt]) {
        for s in body {
            self.stmt(ind, s);
        }
    }
    fn semi(&self) -> &'static str {
        if self.sass {
            ""
        } else {
            ";"
        }
    }
    fn stmt(&mut self, ind: usize, s: &Stmt) {
        let semi = self.semi();
        match s {
            Stmt::Var { name, value, default, global } => {
                let mut t = format!("${}: {}", name, print_expr(value));
                if *default {
                    t.push_str(" !default");
                }
                if *global {
                    t.push_str(" !global");
                }
                t.push_str(semi);
                self.ln(ind, &t);
            }
            Stmt::Decl { prop, value } => {
                self.ln(ind, &format!("{}: {}{}", prop, print_expr(value), semi));
            }
            Stmt::Rule { sel, body } => {
                let mut h = String::new();
                psel(sel, &mut h);
                self.block(ind, &h, body);
            }
            Stmt::If { clauses, els } => {
                if self.sass {
                    for (i, (c, b)) in clauses.iter().enumerate() {
                        let kw = if i == 0 { "@if" } else { "@else if" };
                        self.ln(ind, &format!("{} {}", kw, print_expr(c)));
                        self.body(ind + 1, b);
                    }
                    if let Some(b) = els {
                        self.ln(ind, "@else");
                        self.body(ind + 1, b);
                    }
                } else {
                    for (i, (c, b)) in clauses.iter().enumerate() {
                        let kw = if i == 0 { "@if" } else { "} @else if" };
                        self.ln(ind, &format!("{} {} {{", kw, print_expr(c)));
                        self.body(ind + 1, b);
                    }
                    if let Some(b) = els {
                        self.ln(ind, "} @else {");
                        self.body(ind + 1, b);
                    }
                    self.ln(ind, "}");
                }
            }
            Stmt::For { var, from, to, inclusive, body } => {
                let mut f = String::new();
                pe(from, P_ATOM, &mut f);
                let mut t = String::new();
                pe(to, P_ATOM, &mut t);
                let h = format!(
                    "@for ${} from {} {} {}",
                    var,
                    f,
                    if *inclusive { "through" } else { "to" },
                    t
                );
                self.block(ind, &h, body);
            }
            Stmt::Each { vars, iter, body } => {
                let vs: Vec<String> = vars.iter().map(|v| format!("${}", v)).collect();
                let h = format!("@each {} in {}", vs.join(", "), print_expr(iter));
                self.block(ind, &h, body);
            }
            Stmt::While { cond, body } => {
                let h = format!("@while {}", print_expr(cond));
                self.block(ind, &h, body);
            }
            Stmt::Function { name, params, body } => {
                let mut h = format!("@function {}(", name);
                pparams(params, &mut h);
                h.push(')');
                self.block(ind, &h, body);
            }
            Stmt::Return(e) => self.ln(ind, &format!("@return {}{}", print_expr(e), semi)),
            Stmt::Mixin { name, params, body } => {
                let mut h = format!("@mixin {}(", name);
                pparams(params, &mut h);
                h.push(')');
                self.block(ind, &h, body);
            }
            Stmt::Include { name, args, using, content } => {
                let mut h = format!("@include {}(", name);
                pargs(args, &mut h);
                h.push(')');
                if let Some(u) = using {
                    h.push_str(" using (");
                    pparams(u, &mut h);
                    h.push(')');
                }
                match content {
                    Some(b) => self.block(ind, &h, b),
                    None => {
                        h.push_str(semi);
                        self.ln(ind, &h);
                    }
                }
            }
            Stmt::Content(args) => {
                let mut h = "@content".to_string();
                if !(args.pos.is_empty() && args.named.is_empty() && args.rest.is_none() && args.kwrest.is_none()) {
                    h.push('(');
                    pargs(args, &mut h);
                    h.push(')');
                }
                h.push_str(semi);
                self.ln(ind, &h);
            }
            Stmt::Debug { id, value } => {
                self.lines.insert(*id, self.line);
                self.ln(ind, &format!("@debug {}{}", print_expr(value), semi));
            }
            Stmt::Warn { id, value } => {
                self.lines.insert(*id, self.line);
                self.ln(ind, &format!("@warn {}{}", print_expr(value), semi));
            }
        }
    }
}

fn print_with(p: &Program, sass: bool) -> Printed {
    let mut pr = Pr { out: String::new(), line: 0, lines: BTreeMap::new(), sass };
    pr.ln(0, if sass { "@use \"sass:math\"" } else { "@use \"sass:math\";" });
    pr.body(0, &p.stmts);
    Printed { text: pr.out, lines: pr.lines }
}

/// SCSS text, one statement per line (line 0 is `@use "sass:math";`).
pub fn print_scss(p: &Program) -> Printed {
    print_with(p, false)
}

/// The same program in the indented syntax (same line structure minus the closing-brace lines).
pub fn print_sass(p: &Program) -> Printed {
    print_with(p, true)
}

// ------------------------------------------------------------------------------------------
// Generator
// ------------------------------------------------------------------------------------------

/// Static type of a hole. The type of a variable is determined by the first letter of its name.
#[derive(Clone, Copy, Debug, PartialEq, Eq, Hash, Serialize, Deserialize)]
pub enum Ty {
    Int,
    Dec,
    Str,
    Bool,
    /// null or an integer
    NInt,
    ListInt,
    /// comma list of (string int) space pairs
    Pairs,
    /// map string -> int
    Map,
    /// anything that can be written as a declaration value (no maps); may be null
    Any,
    /// rest parameter holding extra positional integers
    Rest,
}

pub fn ty_of_name(name: &str) -> Ty {
    match name.as_bytes().first() {
        Some(b'n') | Some(b'w') => Ty::Int,
        Some(b'd') => Ty::Dec,
        Some(b's') => Ty::Str,
        Some(b'b') => Ty::Bool,
        Some(b'z') => Ty::NInt,
        Some(b'l') => Ty::ListInt,
        Some(b'q') => Ty::Pairs,
        Some(b'm') => Ty::Map,
        Some(b'r') => Ty::Rest,
        _ => Ty::Any,
    }
}

fn pool(ty: Ty) -> &'static [&'static str] {
    match ty {
        Ty::Int => &["n1", "n2", "n3", "n4"],
        Ty::Dec => &["d1", "d2"],
        Ty::Str => &["s1", "s2", "s3"],
        Ty::Bool => &["b1", "b2"],
        Ty::NInt => &["z1", "z2"],
        Ty::ListInt => &["l1", "l2"],
        Ty::Pairs => &["q1"],
        Ty::Map => &["m1", "m2"],
        Ty::Any => &["a1", "a2"],
        Ty::Rest => &["r1"],
    }
}

#[derive(Clone, Debug, Serialize, Deserialize, PartialEq)]
pub struct GenCfg {
    /// keep (possibly) quoted strings out of @debug/@warn arguments (DESIGN §4 #23)
    pub avoid_quoted_logs: bool,
    /// keep user-function calls out of @warn arguments (grass does not evaluate the argument of a
    /// @warn statement it has already reported once)
    pub avoid_calls_in_warn: bool,
    /// only splat comma-separated lists into rest parameters (grass makes every argument list
    /// comma-separated, Sass keeps the separator of the splatted list)
    pub avoid_space_splat: bool,
    /// no user-function calls inside the values of an invocation with two or more named
    /// arguments (grass evaluates named arguments in interner order, not in source order)
    pub avoid_calls_in_named: bool,
    pub max_stmts: usize,
    pub max_depth: usize,
}

impl Default for GenCfg {
    fn default() -> Self {
        GenCfg { avoid_quoted_logs: true, avoid_calls_in_warn: true, avoid_space_splat: true, avoid_calls_in_named: true, max_stmts: 60, max_depth: 4 }
    }
}

#[derive(Clone, Debug)]
struct PSig {
    name: String,
    ty: Ty,
    has_default: bool,
}

#[derive(Clone, Debug)]
enum RestSig {
    /// extra positional integers
    Ints,
    /// everything (positional and keywords) is forwarded to a callable with this signature
    Forward(Box<CallSig>),
}

#[derive(Clone, Debug)]
struct CallSig {
    params: Vec<PSig>,
    rest: Option<RestSig>,
}

impl CallSig {
    fn all_names(&self, out: &mut Vec<String>) {
        for p in &self.params {
            out.push(p.name.clone());
        }
        if let Some(RestSig::Forward(t)) = &self.rest {
            t.all_names(out);
        }
    }
}

#[derive(Clone, Debug)]
struct FuncSig {
    name: String,
    sig: CallSig,
    ret: Ty,
}

#[derive(Clone, Copy, Debug, PartialEq, Eq)]
enum MixKind {
    Decl,
    Rule,
}

#[derive(Clone, Debug)]
struct MixSig {
    name: String,
    sig: CallSig,
    kind: MixKind,
    content: Option<Vec<Ty>>,
}

#[derive(Clone, Debug)]
struct SCtx {
    in_rule: bool,
    in_fn: bool,
    in_mixin: bool,
    in_content: bool,
    in_control: bool,
    depth: usize,
    can_return: bool,
    ret: Option<Ty>,
    content: Option<Vec<Ty>>,
    sel_depth: usize,
}

impl SCtx {
    fn top() -> SCtx {
        SCtx {
            in_rule: false,
            in_fn: false,
            in_mixin: false,
            in_content: false,
            in_control: false,
            depth: 0,
            can_return: false,
            ret: None,
            content: None,
            sel_depth: 0,
        }
    }
}

#[derive(Clone, Copy, PartialEq, Eq, Debug)]
enum K {
    Var,
    Decl,
    Rule,
    If,
    For,
    Each,
    While,
    FuncDef,
    MixinDef,
    Include,
    Content,
    Return,
    Debug,
    Warn,
    /// a style rule with locals, a callable defined inside it and statements using both
    ClosureRule,
}

const INT_LITS: [i64; 13] = [0, 1, 2, 3, 4, 5, 6, 7, 8, 9, -1, -2, -3];
const DEC_LITS: [i64; 10] = [500, 1500, 250, 2750, 125, 3300, -500, -1250, 100, 2005];
const Q_TEXTS: [&str; 8] = ["a", "", "b c", "x-1", "Q", "hello world", "0", "a_b"];
const U_TEXTS: [&str; 6] = ["alpha", "beta", "kx", "solid", "wide", "left"];
const KEYS: [&str; 4] = ["ka", "kb", "kc", "kd"];
const PROPS: [&str; 5] = ["p", "q", "r", "w", "k"];
const SELS: [&str; 5] = [".a", ".b", ".c", "x", ".d"];
const DIVISORS: [i64; 5] = [2, 4, 5, 8, 10];

struct B<'t> {
    tape: &'t [u16],
    pos: usize,
    cfg: GenCfg,
    scopes: Vec<Vec<String>>,
    funcs: Vec<FuncSig>,
    mixins: Vec<MixSig>,
    nstmts: usize,
    next_id: u32,
    next_fn: u32,
    next_mx: u32,
    next_w: u32,
    diverted: u32,
    diverted_splats: u32,
    diverted_named: u32,
}

impl<'t> B<'t> {
    fn next(&mut self) -> u16 {
        let v = self.tape.get(self.pos).copied().unwrap_or(0);
        self.pos += 1;
        v
    }
    fn pick(&mut self, n: usize) -> usize {
        let v = self.next();
        idx(v, n.max(1))
    }
    /// true with probability num/den; the all-zero tape says false
    fn chance(&mut self, num: usize, den: usize) -> bool {
        self.pick(den) >= den - num
    }
    fn weighted<T: Copy>(&mut self, opts: &[(u32, T)]) -> T {
        let total: u64 = opts.iter().map(|o| o.0 as u64).sum();
        let v = (self.next() as u64 * total) >> 16;
        let mut acc = 0u64;
        for (w, t) in opts {
            acc += *w as u64;
            if v < acc {
                return *t;
            }
        }
        opts[opts.len() - 1].1
    }
    fn defined(&self, n: &str) -> bool {
        self.scopes.iter().any(|s| s.iter().any(|x| x == n))
    }
    fn define(&mut self, n: &str) {
        let last = self.scopes.last_mut().unwrap();
        if !last.iter().any(|x| x == n) {
            last.push(n.to_string());
        }
    }
    fn vars_of(&self, ty: Ty) -> Vec<String> {
        let mut v: Vec<String> = vec![];
        for s in &self.scopes {
            for n in s {
                if ty_of_name(n) == ty && !v.contains(n) {
                    v.push(n.clone());
                }
            }
        }
        v
    }
    fn pick_var(&mut self, ty: Ty) -> Option<Expr> {
        let v = self.vars_of(ty);
        if v.is_empty() {
            None
        } else {
            // prefer recently defined (inner) names a bit: index from the end
            let i = self.pick(v.len());
            Some(Expr::Var(v[v.len() - 1 - i].clone()))
        }
    }
    fn fns_ret(&self, ty: Ty) -> Vec<FuncSig> {
        self.funcs.iter().filter(|f| f.ret == ty).cloned().collect()
    }

    // ---------------- expressions ----------------

    fn lit(&mut self, ty: Ty) -> Expr {
        match ty {
            Ty::Int => Expr::Num(INT_LITS[self.pick(INT_LITS.len())] * 1000),
            Ty::Dec => Expr::Num(DEC_LITS[self.pick(DEC_LITS.len())]),
            Ty::Str => {
                if self.chance(2, 5) {
                    Expr::Str { text: U_TEXTS[self.pick(U_TEXTS.len())].into(), quoted: false }
                } else {
                    Expr::Str { text: Q_TEXTS[self.pick(Q_TEXTS.len())].into(), quoted: true }
                }
            }
            Ty::Bool => Expr::Bool(self.chance(1, 2)),
            Ty::NInt => {
                if self.chance(1, 2) {
                    self.lit(Ty::Int)
                } else {
                    Expr::Null
                }
            }
            Ty::ListInt | Ty::Rest => {
                let n = 1 + self.pick(4);
                let items: Vec<Expr> = (0..n).map(|_| self.lit(Ty::Int)).collect();
                let bracketed = self.chance(1, 5);
                let sep = if n == 1 && !bracketed {
                    Sep::Comma
                } else if self.chance(1, 2) {
                    Sep::Comma
                } else {
                    Sep::Space
                };
                Expr::List { items, sep, bracketed }
            }
            Ty::Pairs => {
                let n = 2 + self.pick(2);
                let items = (0..n)
                    .map(|i| {
                        let k = KEYS[(i + self.pick(2)) % 4];
                        let quoted = self.chance(1, 2);
                        Expr::List {
                            items: vec![Expr::Str { text: k.into(), quoted }, self.lit(Ty::Int)],
                            sep: Sep::Space,
                            bracketed: false,
                        }
                    })
                    .collect();
                Expr::List { items, sep: Sep::Comma, bracketed: false }
            }
            Ty::Map => {
                let n = 1 + self.pick(3);
                let off = self.pick(4);
                let quoted = self.chance(1, 2);
                let kv = (0..n)
                    .map(|i| {
                        (Expr::Str { text: KEYS[(off + i) % 4].into(), quoted }, self.lit(Ty::Int))
                    })
                    .collect();
                Expr::Map(kv)
            }
            Ty::Any => {
                let t = self.weighted(&[(3, Ty::Int), (2, Ty::Str), (1, Ty::Bool), (1, Ty::Dec), (1, Ty::NInt)]);
                self.lit(t)
            }
        }
    }

    fn bx(e: Expr) -> Box<Expr> {
        Box::new(e)
    }

    fn expr(&mut self, ty: Ty, d: usize) -> Expr {
        match ty {
            Ty::Int => self.e_int(d),
            Ty::Dec => self.e_dec(d),
            Ty::Str => self.e_str(d),
            Ty::Bool => self.e_bool(d),
            Ty::NInt => self.e_nint(d),
            Ty::ListInt => self.e_simple(Ty::ListInt, d),
            Ty::Pairs => self.e_simple(Ty::Pairs, d),
            Ty::Map => self.e_simple(Ty::Map, d),
            Ty::Rest => self.e_simple(Ty::Rest, d),
            Ty::Any => self.e_any(d),
        }
    }

    fn call(&mut self, f: &FuncSig, d: usize) -> Expr {
        let args = self.args(&f.sig, d);
        Expr::Call { name: f.name.clone(), args }
    }

    fn e_int(&mut self, d: usize) -> Expr {
        let has_var = !self.vars_of(Ty::Int).is_empty();
        let fns = self.fns_ret(Ty::Int);
        let lens: Vec<Ty> = [Ty::ListInt, Ty::Rest, Ty::Map, Ty::Pairs]
            .into_iter()
            .filter(|t| !self.vars_of(*t).is_empty())
            .collect();
        let has_z = !self.vars_of(Ty::NInt).is_empty();
        let mut o: Vec<(u32, u8)> = vec![(5, 0)];
        if has_var {
            o.push((6, 1));
        }
        if d > 0 {
            o.extend([(2, 2), (2, 3), (1, 4), (1, 5), (1, 6), (1, 7)]);
            if !fns.is_empty() {
                o.push((4, 8));
            }
            if !lens.is_empty() {
                o.push((1, 9));
            }
            if has_z {
                o.push((1, 10));
            }
        }
        match self.weighted(&o) {
            0 => self.lit(Ty::Int),
            1 => self.pick_var(Ty::Int).unwrap(),
            2 => Expr::Bin(BinOp::Add, Self::bx(self.e_int(d - 1)), Self::bx(self.e_int(d - 1))),
            3 => Expr::Bin(BinOp::Sub, Self::bx(self.e_int(d - 1)), Self::bx(self.e_int(d - 1))),
            4 => Expr::Bin(BinOp::Mul, Self::bx(self.e_int(d - 1)), Self::bx(self.e_int(d - 1))),
            5 => {
                let l = self.e_int(d - 1);
                let k = 2 + self.pick(4) as i64;
                Expr::Bin(BinOp::Mod, Self::bx(l), Self::bx(Expr::Num(k * 1000)))
            }
            6 => Expr::Neg(Self::bx(self.e_int(d - 1))),
            7 => {
                let c = self.e_bool(d - 1);
                Expr::If(Self::bx(c), Self::bx(self.e_int(d - 1)), Self::bx(self.e_int(d - 1)))
            }
            8 => {
                let f = fns[self.pick(fns.len())].clone();
                self.call(&f, d - 1)
            }
            9 => {
                let t = lens[self.pick(lens.len())];
                Expr::Length(Self::bx(self.pick_var(t).unwrap()))
            }
            _ => {
                let z = self.pick_var(Ty::NInt).unwrap();
                Expr::Bin(BinOp::Or, Self::bx(z), Self::bx(self.e_int(d - 1)))
            }
        }
    }

    fn e_dec(&mut self, d: usize) -> Expr {
        let has_var = !self.vars_of(Ty::Dec).is_empty();
        let fns = self.fns_ret(Ty::Dec);
        let mut o: Vec<(u32, u8)> = vec![(5, 0)];
        if has_var {
            o.push((6, 1));
        }
        o.push((2, 2));
        if d > 0 {
            o.extend([(2, 3), (2, 4), (2, 5), (2, 6), (1, 7), (1, 8)]);
            if !fns.is_empty() {
                o.push((4, 9));
            }
        }
        match self.weighted(&o) {
            0 => self.lit(Ty::Dec),
            1 => self.pick_var(Ty::Dec).unwrap(),
            2 => self.e_int(d.saturating_sub(1)),
            3 => Expr::Bin(BinOp::Add, Self::bx(self.e_dec(d - 1)), Self::bx(self.e_dec(d - 1))),
            4 => Expr::Bin(BinOp::Sub, Self::bx(self.e_dec(d - 1)), Self::bx(self.e_dec(d - 1))),
            5 => {
                if self.chance(1, 2) {
                    Expr::Bin(BinOp::Mul, Self::bx(self.e_int(d - 1)), Self::bx(self.e_dec(d - 1)))
                } else {
                    Expr::Bin(BinOp::Mul, Self::bx(self.e_dec(d - 1)), Self::bx(self.e_int(d - 1)))
                }
            }
            6 => {
                let k = DIVISORS[self.pick(DIVISORS.len())];
                Expr::Div(Self::bx(self.e_int(d - 1)), k)
            }
            7 => Expr::Neg(Self::bx(self.e_dec(d - 1))),
            8 => {
                let c = self.e_bool(d - 1);
                Expr::If(Self::bx(c), Self::bx(self.e_dec(d - 1)), Self::bx(self.e_dec(d - 1)))
            }
            _ => {
                let f = fns[self.pick(fns.len())].clone();
                self.call(&f, d - 1)
            }
        }
    }

    /// an expression whose value is always an unquoted string
    fn e_unq(&mut self, d: usize) -> Expr {
        if d == 0 || self.chance(1, 2) {
            Expr::Str { text: U_TEXTS[self.pick(U_TEXTS.len())].into(), quoted: false }
        } else {
            self.interp(false, d)
        }
    }

    fn interp(&mut self, quoted: bool, d: usize) -> Expr {
        let mut parts = vec![];
        let heads = ["w-", "k", "it-"];
        parts.push(Part::Lit(heads[self.pick(heads.len())].to_string()));
        let t = self.weighted(&[(4, Ty::Int), (3, Ty::Str), (1, Ty::Dec), (1, Ty::Bool), (1, Ty::ListInt)]);
        parts.push(Part::E(self.expr(t, d - 1)));
        if self.chance(1, 3) {
            parts.push(Part::Lit(if quoted { " z" } else { "-z" }.to_string()));
            if self.chance(1, 3) {
                parts.push(Part::E(self.e_int(d - 1)));
            }
        }
        Expr::Interp { quoted, parts }
    }

    fn e_str(&mut self, d: usize) -> Expr {
        let has_var = !self.vars_of(Ty::Str).is_empty();
        let fns = self.fns_ret(Ty::Str);
        let mut o: Vec<(u32, u8)> = vec![(5, 0)];
        if has_var {
            o.push((6, 1));
        }
        if d > 0 {
            o.extend([(2, 2), (2, 3), (2, 4), (2, 5), (1, 6)]);
            if !fns.is_empty() {
                o.push((4, 7));
            }
        }
        match self.weighted(&o) {
            0 => self.lit(Ty::Str),
            1 => self.pick_var(Ty::Str).unwrap(),
            2 => Expr::Bin(BinOp::Add, Self::bx(self.e_str(d - 1)), Self::bx(self.e_str(d - 1))),
            3 => {
                let t = self.weighted(&[(3, Ty::Int), (1, Ty::Dec), (1, Ty::Bool)]);
                Expr::Bin(BinOp::Add, Self::bx(self.e_str(d - 1)), Self::bx(self.expr(t, d - 1)))
            }
            4 => {
                let t = self.weighted(&[(3, Ty::Int), (1, Ty::Dec), (1, Ty::Bool)]);
                Expr::Bin(BinOp::Add, Self::bx(self.expr(t, d - 1)), Self::bx(self.e_str(d - 1)))
            }
            5 => {
                let q = self.chance(1, 2);
                self.interp(q, d)
            }
            6 => {
                let c = self.e_bool(d - 1);
                Expr::If(Self::bx(c), Self::bx(self.e_str(d - 1)), Self::bx(self.e_str(d - 1)))
            }
            _ => {
                let f = fns[self.pick(fns.len())].clone();
                self.call(&f, d - 1)
            }
        }
    }

    fn e_bool(&mut self, d: usize) -> Expr {
        let has_var = !self.vars_of(Ty::Bool).is_empty();
        let fns = self.fns_ret(Ty::Bool);
        let mut o: Vec<(u32, u8)> = vec![(4, 0)];
        if has_var {
            o.push((5, 1));
        }
        if d > 0 {
            o.extend([(4, 2), (3, 3), (3, 4), (3, 5), (2, 6), (1, 7), (1, 8)]);
            if !fns.is_empty() {
                o.push((3, 9));
            }
        }
        match self.weighted(&o) {
            0 => self.lit(Ty::Bool),
            1 => self.pick_var(Ty::Bool).unwrap(),
            2 => {
                let op = self.weighted(&[(1, BinOp::Lt), (1, BinOp::Le), (1, BinOp::Gt), (1, BinOp::Ge)]);
                let t = if self.chance(1, 4) { Ty::Dec } else { Ty::Int };
                Expr::Bin(op, Self::bx(self.expr(t, d - 1)), Self::bx(self.expr(t, d - 1)))
            }
            3 => {
                let op = if self.chance(1, 3) { BinOp::Ne } else { BinOp::Eq };
                let t = self.weighted(&[(4, Ty::Int), (2, Ty::Str), (1, Ty::Bool), (1, Ty::Dec), (2, Ty::NInt), (1, Ty::ListInt)]);
                let l = self.expr(t, d - 1);
                let r = if self.chance(1, 8) {
                    // cross-type comparison: never equal
                    let t2 = if t == Ty::Str { Ty::Int } else { Ty::Str };
                    self.expr(t2, d - 1)
                } else if t == Ty::NInt && self.chance(1, 2) {
                    Expr::Null
                } else {
                    self.expr(t, d - 1)
                };
                Expr::Bin(op, Self::bx(l), Self::bx(r))
            }
            4 => Expr::Bin(BinOp::And, Self::bx(self.e_bool(d - 1)), Self::bx(self.e_bool(d - 1))),
            5 => Expr::Bin(BinOp::Or, Self::bx(self.e_bool(d - 1)), Self::bx(self.e_bool(d - 1))),
            6 => Expr::Not(Self::bx(self.e_bool(d - 1))),
            7 => {
                let t = self.weighted(&[(2, Ty::NInt), (1, Ty::Any), (1, Ty::Int)]);
                Expr::Not(Self::bx(self.expr(t, d - 1)))
            }
            8 => {
                let c = self.e_bool(d - 1);
                Expr::If(Self::bx(c), Self::bx(self.e_bool(d - 1)), Self::bx(self.e_bool(d - 1)))
            }
            _ => {
                let f = fns[self.pick(fns.len())].clone();
                self.call(&f, d - 1)
            }
        }
    }

    fn e_nint(&mut self, d: usize) -> Expr {
        let has_var = !self.vars_of(Ty::NInt).is_empty();
        let fns = self.fns_ret(Ty::NInt);
        let mut o: Vec<(u32, u8)> = vec![(4, 0), (3, 2)];
        if has_var {
            o.push((5, 1));
        }
        if d > 0 {
            o.push((1, 3));
            if !fns.is_empty() {
                o.push((3, 4));
            }
        }
        match self.weighted(&o) {
            0 => Expr::Null,
            1 => self.pick_var(Ty::NInt).unwrap(),
            2 => self.e_int(d.saturating_sub(1)),
            3 => {
                let c = self.e_bool(d - 1);
                Expr::If(Self::bx(c), Self::bx(self.e_nint(d - 1)), Self::bx(self.e_nint(d - 1)))
            }
            _ => {
                let f = fns[self.pick(fns.len())].clone();
                self.call(&f, d - 1)
            }
        }
    }

    /// list / pairs / map / rest typed holes: literal (with expression elements), variable, if(), call
    fn e_simple(&mut self, ty: Ty, d: usize) -> Expr {
        let has_var = !self.vars_of(ty).is_empty();
        let fns = if ty == Ty::Rest { vec![] } else { self.fns_ret(ty) };
        let mut o: Vec<(u32, u8)> = vec![(4, 0)];
        if has_var {
            o.push((6, 1));
        }
        if d > 0 {
            o.push((2, 2));
            o.push((1, 3));
            if !fns.is_empty() {
                o.push((3, 4));
            }
        }
        match self.weighted(&o) {
            0 => self.lit(if ty == Ty::Rest { Ty::ListInt } else { ty }),
            1 => self.pick_var(ty).unwrap(),
            2 => {
                // literal whose integer leaves are expressions
                let mut l = self.lit(if ty == Ty::Rest { Ty::ListInt } else { ty });
                self.enrich(&mut l, d - 1);
                l
            }
            3 => {
                let c = self.e_bool(d - 1);
                Expr::If(Self::bx(c), Self::bx(self.e_simple(ty, d - 1)), Self::bx(self.e_simple(ty, d - 1)))
            }
            _ => {
                let f = fns[self.pick(fns.len())].clone();
                self.call(&f, d - 1)
            }
        }
    }

    /// replace some integer literals inside a list/map literal by integer expressions
    fn enrich(&mut self, e: &mut Expr, d: usize) {
        match e {
            Expr::List { items, .. } => {
                for it in items.iter_mut() {
                    self.enrich(it, d);
                }
            }
            Expr::Map(kv) => {
                for (_, v) in kv.iter_mut() {
                    self.enrich(v, d);
                }
            }
            Expr::Num(_) => {
                if self.chance(1, 2) {
                    *e = self.e_int(d);
                }
            }
            _ => {}
        }
    }

    fn e_any(&mut self, d: usize) -> Expr {
        let has_var = !self.vars_of(Ty::Any).is_empty();
        let mut o: Vec<(u32, u8)> = vec![(10, 0)];
        if has_var {
            o.push((3, 1));
        }
        if d > 0 {
            o.extend([(2, 2), (2, 3), (1, 4)]);
        }
        match self.weighted(&o) {
            0 => {
                let t = self.weighted(&[
                    (5, Ty::Int),
                    (4, Ty::Str),
                    (2, Ty::Bool),
                    (2, Ty::Dec),
                    (2, Ty::NInt),
                    (2, Ty::ListInt),
                    (1, Ty::Pairs),
                ]);
                self.expr(t, d)
            }
            1 => self.pick_var(Ty::Any).unwrap(),
            2 => Expr::Bin(BinOp::And, Self::bx(self.e_any(d - 1)), Self::bx(self.e_any(d - 1))),
            3 => Expr::Bin(BinOp::Or, Self::bx(self.e_any(d - 1)), Self::bx(self.e_any(d - 1))),
            _ => {
                let c = self.e_bool(d - 1);
                Expr::If(Self::bx(c), Self::bx(self.e_any(d - 1)), Self::bx(self.e_any(d - 1)))
            }
        }
    }

    /// argument of @debug / @warn
    fn e_log(&mut self, warn: bool, d: usize) -> Expr {
        if warn && self.cfg.avoid_calls_in_warn && !self.funcs.is_empty() {
            let saved = std::mem::take(&mut self.funcs);
            let e = self.e_log_inner(warn, d);
            self.funcs = saved;
            return e;
        }
        self.e_log_inner(warn, d)
    }

    fn e_log_inner(&mut self, warn: bool, d: usize) -> Expr {
        // u8 tags: 0 int, 1 unquoted string, 2 dec, 3 bool, 4 nint, 5 listint, 6 pairs, 7 map, 8 rest, 9 str, 10 any
        let mut o: Vec<(u32, u8)> = vec![(5, 0), (3, 1), (2, 2), (4, 9)];
        if !warn {
            o.extend([(1, 3), (2, 4), (2, 5), (1, 6), (2, 7), (3, 10)]);
            if !self.vars_of(Ty::Rest).is_empty() {
                o.push((3, 8));
            }
        }
        let mut k = self.weighted(&o);
        if self.cfg.avoid_quoted_logs && (k == 9 || k == 10) {
            self.diverted += 1;
            k = 1;
        }
        match k {
            0 => self.e_int(d),
            1 => self.e_unq(d),
            2 => self.e_dec(d),
            3 => self.e_bool(d),
            4 => self.e_nint(d),
            5 => self.expr(Ty::ListInt, d),
            6 => self.expr(Ty::Pairs, d),
            7 => self.expr(Ty::Map, d),
            8 => self.pick_var(Ty::Rest).unwrap(),
            9 => self.e_str(d),
            _ => self.e_any(d),
        }
    }

    // ---------------- calls ----------------

    fn args(&mut self, sig: &CallSig, d: usize) -> Args {
        let mut a = Args::default();
        let k = sig.params.len();
        if let Some(RestSig::Forward(target)) = &sig.rest {
            // own parameters positionally, then any valid argument list of the target
            for p in &sig.params {
                a.pos.push(self.expr(p.ty, d));
            }
            let t = self.args(target, d);
            a.pos.extend(t.pos);
            a.named = t.named;
            a.rest = t.rest;
            a.kwrest = t.kwrest;
            return a;
        }
        let has_rest = matches!(sig.rest, Some(RestSig::Ints));
        // how many leading parameters are passed positionally
        let mode = self.weighted(&[(5, 0u8), (4, 1), (1, 2), (1, 3)]);
        let j = if mode == 0 { k } else { self.pick(k + 1) };
        for p in &sig.params[..j] {
            a.pos.push(self.expr(p.ty, d));
        }
        let remaining: Vec<PSig> = sig.params[j..].to_vec();
        if mode == 0 {
            // (j == k) trailing defaults may be dropped
            while let Some(p) = sig.params.get(a.pos.len().wrapping_sub(1)) {
                if p.has_default && self.chance(1, 3) {
                    a.pos.pop();
                } else {
                    break;
                }
            }
        }
        if a.pos.len() == k && has_rest {
            let extra = self.pick(4);
            for _ in 0..extra {
                a.pos.push(self.e_int(d));
            }
            if self.chance(1, 3) {
                let t = if !self.vars_of(Ty::Rest).is_empty() && self.chance(1, 2) { Ty::Rest } else { Ty::ListInt };
                let e = if self.cfg.avoid_space_splat {
                    self.diverted_splats += 1;
                    if t == Ty::Rest {
                        self.pick_var(Ty::Rest).unwrap()
                    } else {
                        let mut l = self.lit(Ty::ListInt);
                        if let Expr::List { sep, .. } = &mut l {
                            *sep = Sep::Comma;
                        }
                        l
                    }
                } else {
                    self.e_simple(t, d.min(1))
                };
                a.rest = Some(Self::bx(e));
            }
            return a;
        }
        if mode == 0 || remaining.is_empty() {
            return a;
        }
        if mode == 2 {
            // a literal list splat that covers exactly the remaining parameters
            let items: Vec<Expr> = remaining.iter().map(|p| self.expr(p.ty, d)).collect();
            let mut items = items;
            if has_rest {
                for _ in 0..self.pick(3) {
                    items.push(self.e_int(d));
                }
            }
            a.rest = Some(Self::bx(Expr::List { items, sep: Sep::Comma, bracketed: false }));
            return a;
        }
        // named (or a literal map splat); parameters with defaults may be omitted
        let mut named: Vec<(String, Expr)> = vec![];
        for p in &remaining {
            if p.has_default && self.chance(1, 2) {
                continue;
            }
            named.push((p.name.clone(), Expr::Null));
        }
        // vary the order of the named arguments
        if named.len() > 1 {
            let r = self.pick(named.len());
            named.rotate_left(r);
            if self.chance(1, 3) {
                named.reverse();
            }
        }
        let hide = self.cfg.avoid_calls_in_named && named.len() >= 2 && mode != 3 && !self.funcs.is_empty();
        let saved = if hide {
            self.diverted_named += 1;
            std::mem::take(&mut self.funcs)
        } else {
            vec![]
        };
        for n in named.iter_mut() {
            n.1 = self.expr(ty_of_name(&n.0), d);
        }
        if hide {
            self.funcs = saved;
        }
        if mode == 3 && !named.is_empty() {
            let kv = named
                .into_iter()
                .map(|(n, e)| (Expr::Str { text: n, quoted: false }, e))
                .collect();
            a.rest = Some(Self::bx(Expr::Map(kv)));
        } else {
            a.named = named;
        }
        a
    }
}

// ---------------- statements ----------------

impl<'t> B<'t> {
    fn block_with(&mut self, ctx: &SCtx, names: &[String], maxn: usize) -> Vec<Stmt> {
        self.scopes.push(names.to_vec());
        let (nf, nm) = (self.funcs.len(), self.mixins.len());
        let n = 1 + self.pick(maxn.max(1));
        let mut out = vec![];
        for _ in 0..n {
            if self.nstmts >= self.cfg.max_stmts {
                break;
            }
            let ended = self.stmt(ctx, &mut out);
            if ended {
                break;
            }
        }
        self.funcs.truncate(nf);
        self.mixins.truncate(nm);
        self.scopes.pop();
        out
    }

    fn kinds(&self, ctx: &SCtx, top_index: Option<usize>) -> Vec<(u32, K)> {
        let deeper = ctx.depth < self.cfg.max_depth;
        let can_define = !ctx.in_fn && !ctx.in_mixin && !ctx.in_content && !ctx.in_control && deeper;
        let mut o: Vec<(u32, K)> = vec![(6, K::Var)];
        if ctx.in_rule && !ctx.in_fn {
            o.push((7, K::Decl));
        }
        if deeper {
            if !ctx.in_fn && !ctx.in_content && ctx.sel_depth < 2 {
                o.push((if ctx.in_rule { 2 } else { 7 }, K::Rule));
            }
            o.extend([(3, K::If), (2, K::For), (2, K::Each), (1, K::While)]);
        }
        let boost = match top_index {
            Some(i) if (2..5).contains(&i) => 5,
            _ => 1,
        };
        // definitions inside style rules close over the rule's locals
        let w = if ctx.in_rule { 5 } else { 2 * boost };
        if can_define && self.next_fn < 6 {
            o.push((w, K::FuncDef));
        }
        if can_define && self.next_mx < 6 {
            o.push((w, K::MixinDef));
        }
        if !ctx.in_fn && deeper && self.mixins.iter().any(|m| m.kind == MixKind::Rule || ctx.in_rule) {
            o.push((8, K::Include));
        }
        if ctx.content.is_some() && ctx.in_rule && !ctx.in_fn {
            o.push((5, K::Content));
        }
        if ctx.in_fn && ctx.can_return && ctx.in_control {
            o.push((3, K::Return));
        }
        o.push((2, K::Debug));
        o.push((1, K::Warn));
        if can_define && !ctx.in_rule && self.next_fn < 6 && self.next_mx < 6 && ctx.depth == 0 {
            o.push((4, K::ClosureRule));
        }
        o
    }

    /// generate one statement (sometimes two) into `out`; returns true if the block must end
    fn stmt(&mut self, ctx: &SCtx, out: &mut Vec<Stmt>) -> bool {
        self.stmt_top(ctx, out, None, None)
    }

    fn stmt_top(&mut self, ctx: &SCtx, out: &mut Vec<Stmt>, top_index: Option<usize>, force: Option<K>) -> bool {
        self.nstmts += 1;
        let kinds = self.kinds(ctx, top_index);
        let k = match (force, top_index) {
            (Some(k), _) => k,
            (None, Some(i)) if i < 2 => K::Var,
            _ => self.weighted(&kinds),
        };
        let inner = |c: &SCtx| SCtx { depth: c.depth + 1, ..c.clone() };
        match k {
            K::Var => {
                let ty = self.weighted(&[
                    (6, Ty::Int),
                    (3, Ty::Str),
                    (2, Ty::Bool),
                    (2, Ty::Dec),
                    (2, Ty::NInt),
                    (2, Ty::ListInt),
                    (1, Ty::Map),
                    (1, Ty::Pairs),
                    (1, Ty::Any),
                ]);
                let existing = self.vars_of(ty);
                // `w*` counters are never assigned by ordinary statements
                let existing: Vec<String> = existing.into_iter().filter(|n| !n.starts_with('w')).collect();
                let name = if !existing.is_empty() && self.chance(3, 5) {
                    existing[self.pick(existing.len())].clone()
                } else {
                    let p = pool(ty);
                    p[self.pick(p.len())].to_string()
                };
                let default = self.chance(1, 6);
                let nested = self.scopes.len() > 1;
                let is_global_name = self.scopes[0].iter().any(|x| *x == name);
                let global = !default && nested && is_global_name && self.chance(1, 6);
                let value = self.expr(ty, 3);
                if !global {
                    self.define(&name);
                }
                out.push(Stmt::Var { name, value, default, global });
                false
            }
            K::Decl => {
                let prop = PROPS[self.pick(PROPS.len())].to_string();
                let value = self.e_any(2);
                out.push(Stmt::Decl { prop, value });
                false
            }
            K::ClosureRule => {
                let base = SELS[self.pick(SELS.len())].to_string();
                let c = SCtx { in_rule: true, sel_depth: ctx.sel_depth + 1, ..inner(ctx) };
                self.scopes.push(vec![]);
                let (nf, nm) = (self.funcs.len(), self.mixins.len());
                let mut body = vec![];
                self.stmt_top(&c, &mut body, None, Some(K::Var));
                if self.chance(1, 2) {
                    self.stmt_top(&c, &mut body, None, Some(K::Var));
                }
                let def = if self.chance(1, 2) { K::FuncDef } else { K::MixinDef };
                // a global that is read just before the definition (so a cached lookup points at the
                // global scope) and shadowed by a local declaration just after it: the closure must
                // see the local one when it runs
                let shadow: Option<String> = if self.chance(1, 2) {
                    let locals: Vec<String> = self.scopes[1..].iter().flatten().cloned().collect();
                    let g: Vec<String> = self.scopes[0]
                        .iter()
                        .filter(|n| ty_of_name(n) == Ty::Int && !n.starts_with('w') && !locals.contains(n))
                        .cloned()
                        .collect();
                    if g.is_empty() {
                        None
                    } else {
                        Some(g[self.pick(g.len())].clone())
                    }
                } else {
                    None
                };
                if let Some(g) = &shadow {
                    body.push(Stmt::Decl { prop: PROPS[self.pick(PROPS.len())].to_string(), value: Expr::Var(g.clone()) });
                    self.nstmts += 1;
                }
                self.stmt_top(&c, &mut body, None, Some(def));
                if let Some(g) = &shadow {
                    let value = self.expr(Ty::Int, 2);
                    self.define(g);
                    body.push(Stmt::Var { name: g.clone(), value, default: false, global: false });
                    self.nstmts += 1;
                }
                let n = 2 + self.pick(4);
                for _ in 0..n {
                    if self.nstmts >= self.cfg.max_stmts {
                        break;
                    }
                    // use the callable just defined more often than chance would
                    let force = if self.chance(1, 3) {
                        if def == K::MixinDef { Some(K::Include) } else { Some(K::Decl) }
                    } else {
                        None
                    };
                    self.stmt_top(&c, &mut body, None, force);
                }
                self.funcs.truncate(nf);
                self.mixins.truncate(nm);
                self.scopes.pop();
                out.push(Stmt::Rule { sel: Sel { base, interp: None }, body });
                false
            }
            K::Rule => {
                let base = SELS[self.pick(SELS.len())].to_string();
                let interp = if self.chance(1, 4) { Some(self.e_int(1)) } else { None };
                let c = SCtx { in_rule: true, sel_depth: ctx.sel_depth + 1, ..inner(ctx) };
                let body = self.block_with(&c, &[], 4);
                out.push(Stmt::Rule { sel: Sel { base, interp }, body });
                false
            }
            K::If => {
                let n = 1 + self.pick(3);
                let c = SCtx { in_control: true, ..inner(ctx) };
                let mut clauses = vec![];
                for _ in 0..n {
                    let cond = if self.chance(1, 6) {
                        let t = self.weighted(&[(2, Ty::NInt), (1, Ty::Any)]);
                        self.expr(t, 1)
                    } else {
                        self.e_bool(2)
                    };
                    let body = self.block_with(&c, &[], 3);
                    clauses.push((cond, body));
                }
                let els = if self.chance(1, 2) { Some(self.block_with(&c, &[], 3)) } else { None };
                out.push(Stmt::If { clauses, els });
                false
            }
            K::For => {
                let p = pool(Ty::Int);
                let var = p[self.pick(p.len())].to_string();
                let bound = |b: &mut Self| -> Expr {
                    if b.chance(1, 5) {
                        let l = b.e_int(1);
                        let k = 2 + b.pick(3) as i64;
                        Expr::Bin(BinOp::Mod, Self::bx(l), Self::bx(Expr::Num(k * 1000)))
                    } else {
                        Expr::Num(b.pick(6) as i64 * 1000)
                    }
                };
                let from = bound(self);
                let to = bound(self);
                let inclusive = self.chance(1, 2);
                let c = SCtx { in_control: true, ..inner(ctx) };
                let body = self.block_with(&c, &[var.clone()], 3);
                out.push(Stmt::For { var, from, to, inclusive, body });
                false
            }
            K::Each => {
                let c = SCtx { in_control: true, ..inner(ctx) };
                let mut forms: Vec<(u32, u8)> = vec![(4, 0), (3, 1), (3, 2), (1, 3), (1, 4)];
                if !self.vars_of(Ty::Rest).is_empty() {
                    forms.push((4, 5));
                }
                let pn = |b: &mut Self, t: Ty| -> String {
                    let p = pool(t);
                    p[b.pick(p.len())].to_string()
                };
                let (vars, iter) = match self.weighted(&forms) {
                    0 => (vec![pn(self, Ty::Int)], self.expr(Ty::ListInt, 1)),
                    1 => {
                        let mut v = vec![pn(self, Ty::Str), pn(self, Ty::Int)];
                        if self.chance(1, 4) {
                            v.push(pn(self, Ty::NInt));
                        }
                        (v, self.expr(Ty::Pairs, 1))
                    }
                    2 => (vec![pn(self, Ty::Str), pn(self, Ty::Int)], self.expr(Ty::Map, 1)),
                    3 => (vec![pn(self, Ty::Any)], self.expr(Ty::Map, 1)),
                    4 => (vec![pn(self, Ty::Any)], self.expr(Ty::Pairs, 1)),
                    _ => (vec![pn(self, Ty::Int)], self.pick_var(Ty::Rest).unwrap()),
                };
                let body = self.block_with(&c, &vars, 3);
                out.push(Stmt::Each { vars, iter, body });
                false
            }
            K::While => {
                self.next_w += 1;
                let w = format!("w{}", self.next_w);
                let k = 1 + self.pick(3) as i64;
                out.push(Stmt::Var { name: w.clone(), value: Expr::Num(k * 1000), default: false, global: false });
                self.define(&w);
                self.nstmts += 2;
                let c = SCtx { in_control: true, ..inner(ctx) };
                let first = self.chance(1, 4);
                let mut body = self.block_with(&c, &[], 2);
                let dec = Stmt::Var {
                    name: w.clone(),
                    value: Expr::Bin(BinOp::Sub, Self::bx(Expr::Var(w.clone())), Self::bx(Expr::Num(1000))),
                    default: false,
                    global: false,
                };
                if first {
                    body.insert(0, dec);
                } else {
                    body.push(dec);
                }
                let cond = Expr::Bin(BinOp::Gt, Self::bx(Expr::Var(w)), Self::bx(Expr::Num(0)));
                out.push(Stmt::While { cond, body });
                false
            }
            K::FuncDef => {
                self.next_fn += 1;
                let name = format!("f{}", self.next_fn);
                let forward: Option<FuncSig> = if !self.funcs.is_empty() && self.chance(1, 4) {
                    let i = self.pick(self.funcs.len());
                    Some(self.funcs[i].clone())
                } else {
                    None
                };
                let ret = match &forward {
                    Some(t) => t.ret,
                    None => self.weighted(&[
                        (6, Ty::Int),
                        (3, Ty::Str),
                        (2, Ty::Bool),
                        (2, Ty::Dec),
                        (1, Ty::NInt),
                        (1, Ty::ListInt),
                        (1, Ty::Map),
                    ]),
                };
                let (params, sig) = self.params(forward.as_ref().map(|f| &f.sig), true);
                let mut names: Vec<String> = params.params.iter().map(|p| p.name.clone()).collect();
                if let Some(r) = &params.rest {
                    // a forwarding rest parameter is not read as a list of integers
                    names.push(if forward.is_some() { "rF".to_string() } else { r.clone() });
                }
                let names: Vec<String> = names.into_iter().filter(|n| n != "rF").collect();
                let c = SCtx {
                    in_fn: true,
                    in_rule: false,
                    can_return: forward.is_none(),
                    ret: Some(ret),
                    content: None,
                    in_control: false,
                    ..inner(ctx)
                };
                // body statements and the final @return share the function's scope
                self.scopes.push(names);
                let n = self.pick(4);
                let mut body = vec![];
                for _ in 0..n {
                    if self.nstmts >= self.cfg.max_stmts {
                        break;
                    }
                    if self.stmt(&c, &mut body) {
                        break;
                    }
                }
                let fin = match &forward {
                    Some(t) => Expr::Call {
                        name: t.name.clone(),
                        args: Args { rest: Some(Self::bx(Expr::Var(params.rest.clone().unwrap()))), ..Args::default() },
                    },
                    None => self.expr(ret, 3),
                };
                body.push(Stmt::Return(fin));
                self.scopes.pop();
                out.push(Stmt::Function { name: name.clone(), params, body });
                let fsig = FuncSig { name, sig, ret };
                self.funcs.push(fsig.clone());
                if forward.is_some() {
                    // use the forwarder at once (named arguments travel through its rest parameter)
                    let p = pool(ret);
                    let vname = p[self.pick(p.len())].to_string();
                    let value = self.call(&fsig, 2);
                    self.define(&vname);
                    self.nstmts += 1;
                    out.push(Stmt::Var { name: vname, value, default: false, global: false });
                }
                false
            }
            K::MixinDef => {
                self.next_mx += 1;
                let name = format!("m{}", self.next_mx);
                let forward: Option<MixSig> = {
                    let cands: Vec<MixSig> = self.mixins.iter().cloned().collect();
                    if !cands.is_empty() && self.chance(1, 4) {
                        Some(cands[self.pick(cands.len())].clone())
                    } else {
                        None
                    }
                };
                let kind = match &forward {
                    Some(t) => t.kind,
                    None => {
                        if self.chance(2, 5) {
                            MixKind::Rule
                        } else {
                            MixKind::Decl
                        }
                    }
                };
                let content: Option<Vec<Ty>> = if forward.is_none() && self.chance(1, 2) {
                    let n = self.pick(3);
                    Some(
                        (0..n)
                            .map(|_| self.weighted(&[(4, Ty::Int), (2, Ty::Str), (1, Ty::Bool), (1, Ty::ListInt)]))
                            .collect(),
                    )
                } else {
                    None
                };
                let (params, sig) = self.params(forward.as_ref().map(|f| &f.sig), false);
                let mut names: Vec<String> = params.params.iter().map(|p| p.name.clone()).collect();
                if forward.is_none() {
                    if let Some(r) = &params.rest {
                        names.push(r.clone());
                    }
                }
                let c = SCtx {
                    in_mixin: true,
                    in_rule: kind == MixKind::Decl,
                    in_fn: false,
                    can_return: false,
                    ret: None,
                    content: content.clone(),
                    in_control: false,
                    sel_depth: if kind == MixKind::Decl { 1 } else { 0 },
                    ..inner(ctx)
                };
                self.scopes.push(names);
                let (nf, nm) = (self.funcs.len(), self.mixins.len());
                let n = 1 + self.pick(4);
                let mut body = vec![];
                for _ in 0..n {
                    if self.nstmts >= self.cfg.max_stmts {
                        break;
                    }
                    if self.stmt(&c, &mut body) {
                        break;
                    }
                }
                if let Some(t) = &forward {
                    body.push(Stmt::Include {
                        name: t.name.clone(),
                        args: Args { rest: Some(Self::bx(Expr::Var(params.rest.clone().unwrap()))), ..Args::default() },
                        using: None,
                        content: None,
                    });
                }
                self.funcs.truncate(nf);
                self.mixins.truncate(nm);
                self.scopes.pop();
                // does the body really contain @content? (a block may only be passed if it does)
                let has_content = contains_content(&body);
                out.push(Stmt::Mixin { name: name.clone(), params, body });
                let msig = MixSig { name, sig, kind, content: if has_content { content } else { None } };
                self.mixins.push(msig.clone());
                if forward.is_some() {
                    let args = self.args(&msig.sig, 2);
                    let inc = Stmt::Include { name: msig.name.clone(), args, using: None, content: None };
                    self.nstmts += 1;
                    if kind == MixKind::Rule || ctx.in_rule {
                        out.push(inc);
                    } else {
                        out.push(Stmt::Rule { sel: Sel { base: ".fw".into(), interp: None }, body: vec![inc] });
                    }
                }
                false
            }
            K::Include => {
                let cands: Vec<MixSig> = self
                    .mixins
                    .iter()
                    .filter(|m| m.kind == MixKind::Rule || ctx.in_rule)
                    .cloned()
                    .collect();
                let m = cands[cands.len() - 1 - self.pick(cands.len())].clone();
                let args = self.args(&m.sig, 2);
                let (using, content) = match &m.content {
                    Some(tys) if self.chance(4, 5) => {
                        let mut names: Vec<String> = vec![];
                        for t in tys {
                            let p = pool(*t);
                            // distinct parameter names
                            let mut n = p[self.pick(p.len())].to_string();
                            let mut tries = 0;
                            while names.contains(&n) && tries < p.len() {
                                tries += 1;
                                n = p[(p.iter().position(|x| *x == n).unwrap() + 1) % p.len()].to_string();
                            }
                            if names.contains(&n) {
                                // pool exhausted (more parameters of one type than names): reuse is an error in Sass
                                n = format!("{}x{}", n, names.len());
                            }
                            names.push(n);
                        }
                        let c = SCtx {
                            in_rule: true,
                            in_content: true,
                            in_control: ctx.in_control,
                            sel_depth: 2,
                            ..inner(ctx)
                        };
                        let body = self.block_with(&c, &names, 3);
                        let using = if names.is_empty() {
                            None
                        } else {
                            Some(Params {
                                params: names.into_iter().map(|n| Param { name: n, default: None }).collect(),
                                rest: None,
                            })
                        };
                        (using, Some(body))
                    }
                    _ => (None, None),
                };
                out.push(Stmt::Include { name: m.name.clone(), args, using, content });
                false
            }
            K::Content => {
                let tys = ctx.content.clone().unwrap();
                let mut a = Args::default();
                for t in tys {
                    a.pos.push(self.expr(t, 2));
                }
                out.push(Stmt::Content(a));
                false
            }
            K::Return => {
                let e = self.expr(ctx.ret.unwrap(), 2);
                out.push(Stmt::Return(e));
                true
            }
            K::Debug => {
                self.next_id += 1;
                let value = self.e_log(false, 2);
                out.push(Stmt::Debug { id: self.next_id, value });
                false
            }
            K::Warn => {
                self.next_id += 1;
                let value = self.e_log(true, 2);
                out.push(Stmt::Warn { id: self.next_id, value });
                false
            }
        }
    }

    /// parameter list of a new callable; `forward` = signature of the callable everything else is forwarded to
    fn params(&mut self, forward: Option<&CallSig>, _is_fn: bool) -> (Params, CallSig) {
        let mut taken: Vec<String> = vec![];
        if let Some(t) = forward {
            t.all_names(&mut taken);
        }
        let n = if forward.is_some() { self.pick(2) } else { self.pick(4) };
        let mut params: Vec<Param> = vec![];
        let mut sigs: Vec<PSig> = vec![];
        let mut defaults_started = false;
        // names of outer variables that earlier defaults read: a LATER parameter of the same name
        // must not be visible to them (defaults see earlier parameters and the defining scope only)
        let mut default_reads: Vec<String> = vec![];
        // defaults are generated in the callee scope: earlier parameters are visible
        self.scopes.push(vec![]);
        for _ in 0..n {
            let ty = self.weighted(&[(6, Ty::Int), (3, Ty::Str), (2, Ty::Bool), (1, Ty::Dec), (1, Ty::ListInt), (1, Ty::NInt)]);
            let p = pool(ty);
            let shadowing: Vec<String> = default_reads.iter().filter(|r| p.contains(&r.as_str()) && !taken.contains(*r)).cloned().collect();
            let name = if !shadowing.is_empty() && self.chance(1, 2) {
                shadowing[self.pick(shadowing.len())].clone()
            } else {
                p[self.pick(p.len())].to_string()
            };
            if taken.contains(&name) {
                continue;
            }
            taken.push(name.clone());
            if forward.is_none() && (defaults_started || self.chance(2, 5)) {
                defaults_started = true;
            }
            let default = if defaults_started {
                // defaults are evaluated in the callee's scope: let many of them depend on an
                // earlier parameter (whose name usually also exists, with another value, at the call site)
                let earlier: Vec<String> = sigs
                    .iter()
                    .filter(|q: &&PSig| q.ty == ty || (q.ty == Ty::Int && matches!(ty, Ty::Str | Ty::Dec | Ty::NInt)))
                    .map(|q| q.name.clone())
                    .collect();
                if !earlier.is_empty() && self.chance(3, 5) {
                    let pv = Expr::Var(earlier[self.pick(earlier.len())].clone());
                    Some(match ty {
                        Ty::Int | Ty::Dec => Expr::Bin(BinOp::Add, Self::bx(pv), Self::bx(self.lit(ty))),
                        Ty::Str => {
                            if self.chance(1, 2) {
                                Expr::Bin(BinOp::Add, Self::bx(self.lit(Ty::Str)), Self::bx(pv))
                            } else {
                                Expr::Bin(BinOp::Add, Self::bx(pv), Self::bx(self.lit(Ty::Str)))
                            }
                        }
                        Ty::Bool => Expr::Not(Self::bx(pv)),
                        _ => pv,
                    })
                } else {
                    Some(self.expr(ty, 2))
                }
            } else {
                None
            };
            if let Some(d) = &default {
                fn vars(e: &Expr, out: &mut Vec<String>) {
                    match e {
                        Expr::Var(n) => out.push(n.clone()),
                        Expr::List { items, .. } => items.iter().for_each(|i| vars(i, out)),
                        Expr::Map(kv) => kv.iter().for_each(|(k, v)| {
                            vars(k, out);
                            vars(v, out)
                        }),
                        Expr::Bin(_, a, b) => {
                            vars(a, out);
                            vars(b, out)
                        }
                        Expr::Neg(a) | Expr::Not(a) | Expr::Div(a, _) | Expr::Length(a) => vars(a, out),
                        Expr::If(a, b, c) => {
                            vars(a, out);
                            vars(b, out);
                            vars(c, out)
                        }
                        _ => {}
                    }
                }
                let mut r = vec![];
                vars(d, &mut r);
                for n in r {
                    if !sigs.iter().any(|q| q.name == n) && !default_reads.contains(&n) {
                        default_reads.push(n);
                    }
                }
            }
            self.define(&name);
            sigs.push(PSig { name: name.clone(), ty, has_default: default.is_some() });
            params.push(Param { name, default });
        }
        self.scopes.pop();
        let (rest, rsig) = match forward {
            Some(t) => (Some("r1".to_string()), Some(RestSig::Forward(Box::new(t.clone())))),
            None => {
                if self.chance(1, 4) {
                    (Some("r1".to_string()), Some(RestSig::Ints))
                } else {
                    (None, None)
                }
            }
        };
        (Params { params, rest }, CallSig { params: sigs, rest: rsig })
    }
}

fn contains_content(b: &[Stmt]) -> bool {
    b.iter().any(|s| match s {
        Stmt::Content(_) => true,
        Stmt::Rule { body, .. } | Stmt::For { body, .. } | Stmt::Each { body, .. } | Stmt::While { body, .. } => {
            contains_content(body)
        }
        Stmt::If { clauses, els } => {
            clauses.iter().any(|(_, b)| contains_content(b)) || els.as_ref().map(|b| contains_content(b)).unwrap_or(false)
        }
        Stmt::Include { content, .. } => content.as_ref().map(|b| contains_content(b)).unwrap_or(false),
        _ => false,
    })
}

/// Build a program from choice tapes: one tape per top-level statement, so that deleting a tape
/// deletes a statement and lowering a number simplifies a choice (0 = simplest everywhere).
pub fn build_program(tapes: &[Vec<u16>], cfg: &GenCfg) -> Program {
    let empty: Vec<u16> = vec![];
    let mut b = B {
        tape: &empty,
        pos: 0,
        cfg: cfg.clone(),
        scopes: vec![vec![]],
        funcs: vec![],
        mixins: vec![],
        nstmts: 0,
        next_id: 0,
        next_fn: 0,
        next_mx: 0,
        next_w: 0,
        diverted: 0,
        diverted_splats: 0,
        diverted_named: 0,
    };
    let mut stmts = vec![];
    let ctx = SCtx::top();
    for (i, t) in tapes.iter().enumerate() {
        if b.nstmts >= cfg.max_stmts {
            break;
        }
        b.tape = t;
        b.pos = 0;
        b.stmt_top(&ctx, &mut stmts, Some(i), None);
    }
    // epilogue: make the final global state observable
    let mut body = vec![];
    let globals = b.scopes[0].clone();
    for g in &globals {
        match ty_of_name(g) {
            Ty::Map => {
                b.next_id += 1;
                stmts.push(Stmt::Debug { id: b.next_id, value: Expr::Var(g.clone()) });
            }
            Ty::Rest => {}
            _ => body.push(Stmt::Decl { prop: g.clone(), value: Expr::Var(g.clone()) }),
        }
    }
    if !body.is_empty() {
        stmts.push(Stmt::Rule { sel: Sel { base: ".zz".into(), interp: None }, body });
    }
    Program { stmts, diverted_logs: b.diverted, diverted_splats: b.diverted_splats, diverted_named: b.diverted_named }
}

pub const TAPE_LEN: usize = 320;

pub fn program_strategy(cfg: GenCfg) -> BoxedStrategy<Program> {
    proptest::collection::vec(proptest::collection::vec(any::<u16>(), TAPE_LEN..=TAPE_LEN), 3..16)
        .prop_map(move |tapes| build_program(&tapes, &cfg))
        .boxed()
}

//! Generator of @extend sheets for C10 (see DESIGN.md §2 C10) and a small directed family.

use crate::engine::idx;
use crate::props::c10::{Case, Ext, Item, Rule};
use proptest::collection::vec;
use proptest::prelude::*;

const PLAIN: [&str; 9] = ["a", "b", ".x", ".y", ".z", "#i", "#j", "[p]", ":hover"];
/// weights favour classes
const PLAIN_W: [&str; 16] = [
    "a", "a", "b", ".x", ".x", ".x", ".y", ".y", ".y", ".z", ".z", "#i", "#j", "[p]", ":hover", ":hover",
];
const TARGETS: [&str; 14] = [".x", ".x", ".x", ".y", ".y", ".z", "%p", "%p", "%q", "a", "b", "#i", "[p]", ":hover"];
const COMBS: [&str; 6] = [" ", " ", " ", " > ", " + ", " ~ "];

#[derive(Clone, Debug)]
struct SimpleSpec {
    pick: u16,
    /// < 100: use a target of the sheet
    target_dice: u8,
    tpick: u16,
    /// < 36: wrap into :not()/:is() (extended rules only)
    pseudo_dice: u8,
    arg: Vec<Vec<(u16, u8, u16)>>,
    arg_comb: u16,
}

#[derive(Clone, Debug)]
struct RuleSpec {
    extender_dice: u8,
    complexes: Vec<Vec<Vec<SimpleSpec>>>,
    combs: Vec<u16>,
    /// extender shape: < 150 single compound
    complex_dice: u8,
    exts: Vec<(u16, u8, u8)>,
    media_dice: u8,
}

fn simple_spec() -> impl Strategy<Value = SimpleSpec> {
    (
        any::<u16>(),
        any::<u8>(),
        any::<u16>(),
        any::<u8>(),
        vec(vec((any::<u16>(), any::<u8>(), any::<u16>()), 1..3), 1..3),
        any::<u16>(),
    )
        .prop_map(|(pick, target_dice, tpick, pseudo_dice, arg, arg_comb)| SimpleSpec {
            pick,
            target_dice,
            tpick,
            pseudo_dice,
            arg,
            arg_comb,
        })
}

fn rule_spec() -> impl Strategy<Value = RuleSpec> {
    (
        any::<u8>(),
        vec(vec(vec(simple_spec(), 1..4), 1..4), 1..3),
        vec(any::<u16>(), 4),
        any::<u8>(),
        vec((any::<u16>(), any::<u8>(), any::<u8>()), 1..3),
        any::<u8>(),
    )
        .prop_map(|(extender_dice, complexes, combs, complex_dice, exts, media_dice)| RuleSpec {
            extender_dice,
            complexes,
            combs,
            complex_dice,
            exts,
            media_dice,
        })
}

/// order simples so that the compound is well-formed: type first, duplicates removed, one type, one id
fn tidy(mut simples: Vec<String>) -> String {
    let mut out: Vec<String> = vec![];
    simples.sort_by_key(|s| {
        let c = s.chars().next().unwrap();
        if c.is_ascii_alphabetic() {
            0
        } else {
            1
        }
    });
    let mut has_type = false;
    let mut has_id = false;
    for s in simples {
        let c = s.chars().next().unwrap();
        if c.is_ascii_alphabetic() {
            if has_type {
                continue;
            }
            has_type = true;
        }
        if c == '#' {
            if has_id {
                continue;
            }
            has_id = true;
        }
        if !out.contains(&s) {
            out.push(s);
        }
    }
    out.join("")
}

fn plain_simple(pick: u16, tdice: u8, tpick: u16, targets: &[String], extender: bool, budget: &mut u32) -> String {
    let limit = if extender { 70 } else { 110 };
    if tdice < limit && *budget > 0 {
        let t = &targets[idx(tpick, targets.len())];
        if !(extender && t.starts_with('%')) {
            *budget -= 1;
            return t.clone();
        }
    }
    PLAIN_W[idx(pick, PLAIN_W.len())].to_string()
}

fn build_simple(s: &SimpleSpec, targets: &[String], extender: bool, budget: &mut u32) -> String {
    if !extender && s.pseudo_dice < 36 {
        // argument: 1-2 complexes of 1-2 compounds with one simple each (plus the occasional second simple)
        let mut cs = vec![];
        for c in &s.arg {
            let comps: Vec<String> = c
                .iter()
                .map(|(p, td, tp)| plain_simple(*p, *td, *tp, targets, false, budget))
                .collect();
            let comb = COMBS[idx(s.arg_comb, COMBS.len())];
            cs.push(comps.join(comb));
        }
        cs.dedup();
        let name = if s.pseudo_dice < 20 { "not" } else { "is" };
        return format!(":{}({})", name, cs.join(", "));
    }
    plain_simple(s.pick, s.target_dice, s.tpick, targets, extender, budget)
}

fn build_rule(r: &RuleSpec, targets: &[String], extender: bool) -> String {
    let mut list: Vec<String> = vec![];
    let single = extender && r.complex_dice < 150;
    // a complex extender mentions a target at most once (self-extending complex extenders make
    // grass's extension blow up exponentially: minutes for three rules)
    let mut budget: u32 = if extender && !single { 1 } else { 1000 };
    for cx in &r.complexes {
        let mut comps: Vec<String> = vec![];
        for comp in cx {
            if single && !comps.is_empty() {
                break;
            }
            // compounds of 1-3 simples, mostly 1-2
            let take = if comp.len() == 3 && comp[0].pick & 1 == 0 { 2 } else { comp.len() };
            let simples: Vec<String> = comp.iter().take(take).map(|s| build_simple(s, targets, extender, &mut budget)).collect();
            comps.push(tidy(simples));
        }
        let mut s = comps[0].clone();
        for (i, c) in comps.iter().enumerate().skip(1) {
            s.push_str(COMBS[idx(r.combs[i], COMBS.len())]);
            s.push_str(c);
        }
        if !list.contains(&s) {
            list.push(s);
        }
    }
    list.join(", ")
}

pub fn sheet() -> impl Strategy<Value = Case> {
    (
        vec(any::<u16>(), 1..3),
        vec(rule_spec(), 2..6),
        any::<u64>(),
        any::<u8>(),
    )
        .prop_map(|(tpicks, rules, seed, budget)| {
            let mut targets: Vec<String> = vec![];
            for t in tpicks {
                let s = TARGETS[idx(t, TARGETS.len())].to_string();
                if !targets.contains(&s) {
                    targets.push(s);
                }
            }
            // which rules are extenders: at least one, not all when there are three or more rules
            let n = rules.len();
            let mut is_ext: Vec<bool> = rules.iter().map(|r| r.extender_dice < 115).collect();
            if !is_ext.iter().any(|x| *x) {
                is_ext[n - 1] = true;
            }
            if is_ext.iter().all(|x| *x) && n >= 2 {
                is_ext[0] = false;
            }
            // 1..3 @extend directives in the sheet
            let mut left = 1 + (budget as usize % 3);
            let mut out_rules: Vec<(bool, Rule)> = vec![];
            for (r, e) in rules.iter().zip(is_ext.iter()) {
                let mut extends = vec![];
                if *e && left > 0 {
                    for (tp, missing_dice, opt_dice) in &r.exts {
                        if left == 0 {
                            break;
                        }
                        let target = if *missing_dice < 14 {
                            [".w", "%r", "c"][*missing_dice as usize % 3].to_string()
                        } else {
                            targets[idx(*tp, targets.len())].clone()
                        };
                        if extends.iter().any(|x: &Ext| x.target == target) {
                            continue;
                        }
                        extends.push(Ext {
                            target,
                            optional: *opt_dice < 30,
                        });
                        left -= 1;
                    }
                }
                let extender = !extends.is_empty();
                out_rules.push((
                    r.media_dice < 25,
                    Rule {
                        sel: build_rule(r, &targets, extender),
                        extends,
                    },
                ));
            }
            if !out_rules.iter().any(|(_, r)| !r.extends.is_empty()) {
                // the dice gave no extender a directive: the last rule extends the first target
                let last = out_rules.len() - 1;
                out_rules[last].1 = Rule {
                    sel: build_rule(&rules[last], &targets, true),
                    extends: vec![Ext {
                        target: targets[0].clone(),
                        optional: false,
                    }],
                };
            }
            // one @media block at the position of the first media rule
            let mut items: Vec<Item> = vec![];
            let mut media_at: Option<usize> = None;
            for (m, r) in out_rules {
                if m {
                    match media_at {
                        Some(k) => {
                            if let Item::Media(v) = &mut items[k] {
                                v.push(r)
                            }
                        }
                        None => {
                            media_at = Some(items.len());
                            items.push(Item::Media(vec![r]));
                        }
                    }
                } else {
                    items.push(Item::Rule(r));
                }
            }
            Case {
                items,
                seed,
                class: "search".into(),
            }
        })
}

fn r(sel: &str, exts: &[&str]) -> Item {
    Item::Rule(Rule {
        sel: sel.into(),
        extends: exts
            .iter()
            .map(|t| Ext {
                target: t.trim_end_matches('?').to_string(),
                optional: t.ends_with('?'),
            })
            .collect(),
    })
}

/// A complete small family: every (extended selector, extender) pair of two fixed lists, in both
/// orders, with target `.x` — plus a few hand-written sheets.
pub fn directed() -> Vec<Case> {
    let extended = [
        ".x", "a.x", ".x.y", "#i.x", "b .x", ".x b", "a > .x", ".x + b", ".x ~ b", "a .x > b", ":not(.x)", ":is(.x)", ":is(.x, b) .y",
        ":not(a .x)", "a:not(.x) b", ".x:hover", ".x, .y", ".x .x", ":is(a, #i), .x", ":is(.y, #i).x", "%p .x", ".x[p]",
        // lists whose members differ only in a combinator: neither generated variant is redundant
        "a + .x, a ~ .x", "a ~ .x, a + .x", "a > .x, a .x", "a .x, a > .x", ".x + b, .x ~ b", ".x > b, .x b",
    ];
    let extenders = ["b", ".y", "a.y", "#j", "#i.z", ".y.z", ":hover", "b .y", "a > .y", ".z + .y", ".z ~ b", ".y, .z", "a .y, #j"];
    let mut out = vec![];
    let mut k = 0u64;
    for s in extended {
        for e in extenders {
            for flip in [false, true] {
                k += 1;
                let mut items = vec![r(s, &[]), r(e, &[".x"])];
                if flip {
                    items.reverse();
                }
                out.push(Case {
                    items,
                    seed: k.wrapping_mul(0x9e37_79b9_7f4a_7c15),
                    class: "directed:pair".into(),
                });
            }
        }
    }
    let hand: Vec<Vec<Item>> = vec![
        vec![r(".x", &[]), r(".y", &[".x"]), r(".z", &[".y"])],
        vec![r(".x", &[".y"]), r(".y", &[".x"]), r("a .x", &[])],
        vec![r("%p", &[]), r("a", &["%p"]), r("b", &["%q?"])],
        vec![r("%p a", &[]), r(".y", &["%p"]), r(".z", &[".y"])],
        vec![r(".x.y", &[]), r("a", &[".x"]), r(".z", &[".y"])],
        vec![r("a", &[".w?"]), r(".x", &[])],
        vec![Item::Media(vec![r(".x", &[]).rule(), r("a", &[".x"]).rule()]), r(".x b", &[])],
        vec![r(".x", &[]), Item::Media(vec![r(".y .x", &[]).rule()]), r("a", &[".x"])],
    ];
    // @extend chains of 2..4 links in EVERY order of the rules (a link declared before the rule
    // it chains onto must still be propagated)
    fn perms(n: usize) -> Vec<Vec<usize>> {
        if n == 1 {
            return vec![vec![0]];
        }
        let mut out = vec![];
        for p in perms(n - 1) {
            for pos in 0..n {
                let mut q = p.clone();
                q.insert(pos, n - 1);
                out.push(q);
            }
        }
        out
    }
    let links = [".y", ".z", "b", "#j"];
    for target in [".x", "a .x"] {
        for len in 2..=4usize {
            if target != ".x" && len == 4 {
                continue;
            }
            let mut rules = vec![r(target, &[])];
            let mut prev = ".x";
            for l in links.iter().take(len) {
                rules.push(r(l, &[prev]));
                prev = l;
            }
            for p in perms(rules.len()) {
                k += 1;
                out.push(Case {
                    items: p.iter().map(|i| rules[*i].clone()).collect(),
                    seed: k.wrapping_mul(0x9e37_79b9_7f4a_7c15),
                    class: "directed:chain-order".into(),
                });
            }
        }
    }
    // the same selector pseudo (mentioning the target) in several rules, all before / after the extend
    for pseudo in [":not(.x)", ":is(.x)", ":is(.x, b)", ":not(.x, .y)"] {
        for ext in [".z", "a.z", "#j"] {
            let r1 = r(&format!("a{}", pseudo), &[]);
            let r2 = r(&format!("b{}", pseudo), &[]);
            let r3 = r(&format!(".y {}", pseudo), &[]);
            let e = r(ext, &[".x"]);
            for order in [vec![0usize, 1, 2, 3], vec![3, 0, 1, 2], vec![0, 3, 1, 2], vec![0, 1, 3, 2]] {
                let all = [r1.clone(), r2.clone(), r3.clone(), e.clone()];
                k += 1;
                out.push(Case {
                    items: order.iter().map(|i| all[*i].clone()).collect(),
                    seed: k.wrapping_mul(0x9e37_79b9_7f4a_7c15),
                    class: "directed:same-pseudo-in-several-rules".into(),
                });
            }
        }
    }
    for items in hand {
        k += 1;
        out.push(Case {
            items,
            seed: k.wrapping_mul(0x9e37_79b9_7f4a_7c15),
            class: "directed:hand".into(),
        });
    }
    out
}

trait IntoRule {
    fn rule(self) -> Rule;
}
impl IntoRule for Item {
    fn rule(self) -> Rule {
        match self {
            Item::Rule(r) => r,
            Item::Media(mut v) => v.remove(0),
        }
    }
}

#[allow(dead_code)]
pub fn plain_alphabet() -> &'static [&'static str] {
    &PLAIN
}

//! Multi-file Sass projects for C12 (modules): AST, SCSS printer and a dice-driven builder.
//!
//! A project is a list of modules (files); the last one is the entry file `entry.scss`. Every file
//! has the fixed layout  loads (@use/@forward) · variable declarations · functions · mixins · body
//! (assignments and style rules). Member names are unique per module (`$v3`, `$w3`, `f3`, `mx3`)
//! except the deliberately repeated private names `$-q`, `-g`, `-pm`.

use crate::engine::idx;
use proptest::prelude::*;
use serde::{Deserialize, Serialize};
use std::collections::{BTreeMap, BTreeSet};

#[derive(Clone, Debug, Serialize, Deserialize, PartialEq, Eq, Hash)]
pub struct Project {
    /// library modules followed by the entry file (always last, always `entry.scss`)
    pub mods: Vec<Module>,
}

#[derive(Clone, Debug, Serialize, Deserialize, PartialEq, Eq, Hash)]
pub struct Module {
    pub file: String,
    pub loads: Vec<Load>,
    pub vars: Vec<VarDecl>,
    pub fns: Vec<FnDecl>,
    pub mixins: Vec<MixinDecl>,
    pub body: Vec<Stmt>,
}

#[derive(Clone, Debug, Serialize, Deserialize, PartialEq, Eq, Hash)]
pub enum Ns {
    Default,
    As(String),
    Star,
}

#[derive(Clone, Debug, Serialize, Deserialize, PartialEq, Eq, Hash)]
pub enum Filter {
    None,
    /// entries as written: `$p-v3` (variable) or `f3` (function and mixin of that name)
    Show(Vec<String>),
    Hide(Vec<String>),
}

#[derive(Clone, Debug, Serialize, Deserialize, PartialEq, Eq, Hash)]
pub enum LoadKind {
    Use { ns: Ns },
    Forward { prefix: Option<String>, filter: Filter },
}

#[derive(Clone, Debug, Serialize, Deserialize, PartialEq, Eq, Hash)]
pub struct WithVar {
    /// without `$`
    pub name: String,
    pub value: i64,
    /// `!default` (only printed for @forward)
    pub default: bool,
}

#[derive(Clone, Debug, Serialize, Deserialize, PartialEq, Eq, Hash)]
pub struct Load {
    pub kind: LoadKind,
    pub url: String,
    pub with: Vec<WithVar>,
}

#[derive(Clone, Debug, Serialize, Deserialize, PartialEq, Eq, Hash)]
pub struct VarDecl {
    pub name: String,
    pub value: Expr,
    pub default: bool,
}

/// `@function name($x) { @return body }`
#[derive(Clone, Debug, Serialize, Deserialize, PartialEq, Eq, Hash)]
pub struct FnDecl {
    pub name: String,
    pub body: Expr,
}

/// `@mixin name($x) { prop: expr; ... }`
#[derive(Clone, Debug, Serialize, Deserialize, PartialEq, Eq, Hash)]
pub struct MixinDecl {
    pub name: String,
    pub body: Vec<(String, Expr)>,
}

#[derive(Clone, Debug, Serialize, Deserialize, PartialEq, Eq, Hash)]
pub enum Stmt {
    Assign { ns: Option<String>, name: String, value: Expr, default: bool },
    Rule { selector: String, items: Vec<Item> },
}

#[derive(Clone, Debug, Serialize, Deserialize, PartialEq, Eq, Hash)]
pub enum Item {
    Decl(String, Expr),
    Include { ns: Option<String>, name: String, arg: Expr },
}

#[derive(Clone, Debug, Serialize, Deserialize, PartialEq, Eq, Hash)]
pub enum Expr {
    Lit(i64),
    /// the parameter `$x` of the enclosing function/mixin
    Param,
    Var { ns: Option<String>, name: String },
    Call { ns: Option<String>, name: String, args: Vec<Expr> },
    Add(Box<Expr>, Box<Expr>),
}

// ------------------------------------------------------------------------------------------------
// printer

fn p_expr(e: &Expr, out: &mut String, nested: bool) {
    match e {
        Expr::Lit(n) => out.push_str(&n.to_string()),
        Expr::Param => out.push_str("$x"),
        Expr::Var { ns, name } => {
            if let Some(ns) = ns {
                out.push_str(ns);
                out.push('.');
            }
            out.push('$');
            out.push_str(name);
        }
        Expr::Call { ns, name, args } => {
            if let Some(ns) = ns {
                out.push_str(ns);
                out.push('.');
            }
            out.push_str(name);
            out.push('(');
            for (i, a) in args.iter().enumerate() {
                if i > 0 {
                    out.push_str(", ");
                }
                p_expr(a, out, false);
            }
            out.push(')');
        }
        Expr::Add(a, b) => {
            if nested {
                out.push('(');
            }
            p_expr(a, out, true);
            out.push_str(" + ");
            p_expr(b, out, true);
            if nested {
                out.push(')');
            }
        }
    }
}

pub fn expr_text(e: &Expr) -> String {
    let mut s = String::new();
    p_expr(e, &mut s, false);
    s
}

pub fn load_text(l: &Load) -> String {
    let mut s = String::new();
    match &l.kind {
        LoadKind::Use { ns } => {
            s.push_str(&format!("@use \"{}\"", l.url));
            match ns {
                Ns::Default => {}
                Ns::As(n) => s.push_str(&format!(" as {}", n)),
                Ns::Star => s.push_str(" as *"),
            }
        }
        LoadKind::Forward { prefix, filter } => {
            s.push_str(&format!("@forward \"{}\"", l.url));
            if let Some(p) = prefix {
                s.push_str(&format!(" as {}*", p));
            }
            match filter {
                Filter::None => {}
                Filter::Show(v) => s.push_str(&format!(" show {}", v.join(", "))),
                Filter::Hide(v) => s.push_str(&format!(" hide {}", v.join(", "))),
            }
        }
    }
    if !l.with.is_empty() {
        let is_fwd = matches!(l.kind, LoadKind::Forward { .. });
        let items: Vec<String> = l
            .with
            .iter()
            .map(|w| {
                format!(
                    "${}: {}{}",
                    w.name,
                    w.value,
                    if w.default && is_fwd { " !default" } else { "" }
                )
            })
            .collect();
        s.push_str(&format!(" with ({})", items.join(", ")));
    }
    s.push(';');
    s
}

pub fn module_text(m: &Module) -> String {
    let mut s = String::new();
    for l in &m.loads {
        s.push_str(&load_text(l));
        s.push('\n');
    }
    for v in &m.vars {
        s.push_str(&format!(
            "${}: {}{};\n",
            v.name,
            expr_text(&v.value),
            if v.default { " !default" } else { "" }
        ));
    }
    for f in &m.fns {
        s.push_str(&format!(
            "@function {}($x) {{ @return {}; }}\n",
            f.name,
            expr_text(&f.body)
        ));
    }
    for mx in &m.mixins {
        s.push_str(&format!("@mixin {}($x) {{", mx.name));
        for (p, e) in &mx.body {
            s.push_str(&format!(" {}: {};", p, expr_text(e)));
        }
        s.push_str(" }\n");
    }
    for st in &m.body {
        match st {
            Stmt::Assign { ns, name, value, default } => {
                if let Some(ns) = ns {
                    s.push_str(ns);
                    s.push('.');
                }
                s.push_str(&format!(
                    "${}: {}{};\n",
                    name,
                    expr_text(value),
                    if *default { " !default" } else { "" }
                ));
            }
            Stmt::Rule { selector, items } => {
                s.push_str(&format!("{} {{\n", selector));
                for it in items {
                    match it {
                        Item::Decl(p, e) => s.push_str(&format!("  {}: {};\n", p, expr_text(e))),
                        Item::Include { ns, name, arg } => {
                            s.push_str("  @include ");
                            if let Some(ns) = ns {
                                s.push_str(ns);
                                s.push('.');
                            }
                            s.push_str(&format!("{}({});\n", name, expr_text(arg)));
                        }
                    }
                }
                s.push_str("}\n");
            }
        }
    }
    s
}

impl Project {
    pub fn files(&self) -> Vec<(String, String)> {
        self.mods.iter().map(|m| (m.file.clone(), module_text(m))).collect()
    }
}

// ------------------------------------------------------------------------------------------------
// builder

struct Dice<'a> {
    v: &'a [u16],
    i: usize,
}

impl<'a> Dice<'a> {
    fn new(v: &'a [u16]) -> Self {
        Dice { v, i: 0 }
    }
    /// 0 when exhausted: every decision maps 0 to its simplest option
    fn next(&mut self) -> u16 {
        let r = self.v.get(self.i).copied().unwrap_or(0);
        self.i += 1;
        r
    }
    fn pick(&mut self, n: usize) -> usize {
        idx(self.next(), n)
    }
    /// true with probability pct/100 (never for a 0 die)
    fn chance(&mut self, pct: u32) -> bool {
        let d = self.next() as u32;
        d > 0 && (65535 - d) * 100 < pct * 65536
    }
}

#[derive(Clone, Copy, PartialEq, Eq, Debug)]
pub enum Kind {
    Var,
    Fn,
    Mixin,
}

/// a member as seen through a module's public interface (generator-side static view)
#[derive(Clone, Debug)]
struct Exposed {
    name: String,
    kind: Kind,
    default: bool,
    builtin: bool,
}

#[derive(Clone, Debug, Serialize, Deserialize)]
pub struct Raw {
    pub n: usize,
    pub dice: Vec<Vec<u16>>,
    pub global: Vec<u16>,
}

pub fn raw_strategy() -> impl Strategy<Value = Raw> {
    (
        1usize..=6,
        proptest::collection::vec(proptest::collection::vec(any::<u16>(), 0..220), 7),
        proptest::collection::vec(any::<u16>(), 0..8),
    )
        .prop_map(|(n, dice, global)| Raw { n, dice, global })
}

pub fn project_strategy() -> impl Strategy<Value = Project> {
    raw_strategy().prop_map(|r| build_project(&r))
}

fn dir_of(file: &str) -> &str {
    match file.rfind('/') {
        Some(i) => &file[..=i],
        None => "",
    }
}

/// the URL of `target` as written in a file located in `from_dir`, in one of several spellings
fn spell(from_dir: &str, target: &str, variant: usize) -> String {
    let tdir = dir_of(target);
    let base = &target[tdir.len()..];
    let stem = base.strip_suffix(".scss").unwrap_or(base);
    let partial = stem.starts_with('_');
    let bare = stem.trim_start_matches('_');
    let rel = if from_dir == tdir {
        String::new()
    } else if from_dir.is_empty() {
        tdir.to_string()
    } else if tdir.is_empty() {
        "../".to_string()
    } else {
        format!("../{}", tdir)
    };
    match variant {
        0 => format!("{}{}", rel, bare),
        1 => format!("./{}{}", rel, bare),
        2 => format!("{}{}.scss", rel, stem),
        _ => {
            if partial {
                format!("{}{}", rel, stem)
            } else {
                format!("./{}{}.scss", rel, stem)
            }
        }
    }
}

fn default_ns(url: &str) -> String {
    let last = url.rsplit(|c| c == '/' || c == ':').next().unwrap_or(url);
    let stem = last.split('.').next().unwrap_or(last);
    stem.trim_start_matches('_').to_string()
}

#[derive(Clone, Copy, PartialEq, Eq, Debug)]
enum Why {
    Valid,
    Filtered,
    WrongPrefix,
    NotUsed,
    NoNamespace,
    Private,
    GlobalViaNs,
}

struct Cand {
    ns: Option<String>,
    name: String,
    kind: Kind,
    builtin: bool,
    why: Why,
}

pub fn build_project(raw: &Raw) -> Project {
    let n = raw.n.clamp(1, 6);
    let empty: Vec<u16> = vec![];
    let dice_of = |i: usize| -> &Vec<u16> { raw.dice.get(i).unwrap_or(&empty) };
    let mut mods: Vec<Module> = vec![];
    // targets[i][k] = Some(module index) | None (built-in) for load k of module i
    let mut targets: Vec<Vec<Option<usize>>> = vec![];

    // ---- pass 1: files, load graph, own members ----
    for i in 0..=n {
        let is_entry = i == n;
        let mut d = Dice::new(dice_of(i));
        let tag = if is_entry { 9 } else { i };
        let file = if is_entry {
            "entry.scss".to_string()
        } else {
            match d.pick(4) {
                0 => format!("m{}.scss", i),
                1 => format!("lib/m{}.scss", i),
                2 => format!("_m{}.scss", i),
                _ => format!("lib/_m{}.scss", i),
            }
        };
        let nloads = if i == 0 {
            0
        } else if is_entry {
            1 + d.pick(4)
        } else {
            d.pick(4)
        };
        let mut loads = vec![];
        let mut tg = vec![];
        let mut used_ns: BTreeSet<String> = BTreeSet::new();
        for k in 0..nloads {
            let builtin = d.chance(6);
            // prefer the nearest lower modules so that chains and diamonds are frequent
            let j = i - 1 - d.pick(i);
            let url = if builtin {
                "sass:math".to_string()
            } else {
                spell(dir_of(&file), &mods[j].file, d.pick(4))
            };
            let forward = !is_entry && d.chance(45);
            let kind = if forward {
                let prefix = match d.pick(4) {
                    0 | 1 => None,
                    // the prefix is an identifier too: `_` and `-` are the same character in it
                    2 => Some(if d.chance(35) { "p_".to_string() } else { "p-".to_string() }),
                    _ => Some("q-".to_string()),
                };
                LoadKind::Forward { prefix, filter: Filter::None }
            } else {
                let mut ns = match d.pick(4) {
                    0 | 1 => Ns::Default,
                    2 => Ns::As(format!("n{}", if builtin { 8 } else { j })),
                    _ => Ns::Star,
                };
                let name = match &ns {
                    Ns::Default => Some(default_ns(&url)),
                    Ns::As(s) => Some(s.clone()),
                    Ns::Star => None,
                };
                if let Some(nm) = name {
                    if used_ns.contains(&nm) {
                        let fresh = format!("x{}", k);
                        used_ns.insert(fresh.clone());
                        ns = Ns::As(fresh);
                    } else {
                        used_ns.insert(nm);
                    }
                }
                LoadKind::Use { ns }
            };
            loads.push(Load { kind, url, with: vec![] });
            tg.push(if builtin { None } else { Some(j) });
        }
        // own members; some modules have no member at all of a kind (a forwarding module whose targets
        // contribute nothing of that kind still has to hide its own private members)
        let bare_vars = !is_entry && d.chance(22);
        let bare_fns = !is_entry && d.chance(22);
        let bare_mixins = !is_entry && d.chance(22);
        let mut vars = vec![];
        if !bare_vars {
            vars.push(VarDecl { name: format!("v{}", tag), value: Expr::Lit(0), default: d.chance(50) });
            if d.chance(60) {
                vars.push(VarDecl { name: format!("w{}", tag), value: Expr::Lit(0), default: d.chance(50) });
            }
            if d.chance(50) {
                vars.push(VarDecl { name: "-q".to_string(), value: Expr::Lit(0), default: false });
            }
        }
        let mut fns = vec![];
        if !bare_fns {
            fns.push(FnDecl { name: format!("f{}", tag), body: Expr::Param });
            if d.chance(35) {
                fns.push(FnDecl { name: "-g".to_string(), body: Expr::Param });
            }
        }
        let mut mixins = vec![];
        if !bare_mixins {
            if d.chance(70) {
                mixins.push(MixinDecl { name: format!("mx{}", tag), body: vec![] });
            }
            if d.chance(25) {
                mixins.push(MixinDecl { name: "-pm".to_string(), body: vec![] });
            }
        }
        mods.push(Module { file, loads, vars, fns, mixins, body: vec![] });
        targets.push(tg);
    }

    // ---- pass 2: public interfaces (true visibility) and show/hide lists ----
    let builtin_view = || -> Vec<Exposed> {
        vec![
            Exposed { name: "max".into(), kind: Kind::Fn, default: false, builtin: true },
            Exposed { name: "min".into(), kind: Kind::Fn, default: false, builtin: true },
        ]
    };
    let mut exposed: Vec<Vec<Exposed>> = vec![];
    // members that exist behind a forward but are filtered out (for deliberately invalid references)
    let mut hidden: Vec<Vec<Exposed>> = vec![];
    for i in 0..=n {
        let mut d = Dice::new(dice_of(i));
        d.i = 40; // separate region of the module's dice
        let mut ex: Vec<Exposed> = vec![];
        let mut hid: Vec<Exposed> = vec![];
        for v in &mods[i].vars {
            if !v.name.starts_with('-') {
                ex.push(Exposed { name: v.name.clone(), kind: Kind::Var, default: v.default, builtin: false });
            }
        }
        for f in &mods[i].fns {
            if !f.name.starts_with('-') {
                ex.push(Exposed { name: f.name.clone(), kind: Kind::Fn, default: false, builtin: false });
            }
        }
        for m in &mods[i].mixins {
            if !m.name.starts_with('-') {
                ex.push(Exposed { name: m.name.clone(), kind: Kind::Mixin, default: false, builtin: false });
            }
        }
        let nl = mods[i].loads.len();
        for k in 0..nl {
            let tview: Vec<Exposed> = match targets[i][k] {
                Some(j) => exposed[j].clone(),
                None => builtin_view(),
            };
            let thid: Vec<Exposed> = match targets[i][k] {
                Some(j) => hidden[j].clone(),
                None => vec![],
            };
            if let LoadKind::Forward { prefix, filter } = &mut mods[i].loads[k].kind {
                let pre = prefix.clone().unwrap_or_default();
                let written = |e: &Exposed| -> String {
                    if e.kind == Kind::Var {
                        format!("${}{}", pre, e.name)
                    } else {
                        format!("{}{}", pre, e.name)
                    }
                };
                let mode = d.pick(5);
                let mut list: Vec<String> = vec![];
                if mode >= 3 && !tview.is_empty() {
                    let show = mode == 3;
                    for e in &tview {
                        let take = if show { d.chance(65) } else { d.chance(35) };
                        if take {
                            list.push(written(e));
                        }
                    }
                    // a show list naming members of one kind only (only variables / only callables):
                    // the other kinds must then be hidden completely
                    if show && d.chance(35) {
                        let kinds: Vec<Kind> = [Kind::Var, Kind::Fn, Kind::Mixin].into_iter().filter(|k| tview.iter().any(|e| e.kind == *k)).collect();
                        if kinds.len() >= 2 {
                            let keep = kinds[d.pick(kinds.len())];
                            list = tview.iter().filter(|e| e.kind == keep).map(|e| written(e)).collect();
                        }
                    }
                    if list.is_empty() {
                        list.push(written(&tview[d.pick(tview.len())]));
                    }
                    // rarely the unprefixed spelling, which must not match a prefixed member
                    if !pre.is_empty() && d.chance(10) {
                        let e = &tview[d.pick(tview.len())];
                        list.push(if e.kind == Kind::Var { format!("${}", e.name) } else { e.name.clone() });
                    }
                    list.dedup();
                    *filter = if show { Filter::Show(list.clone()) } else { Filter::Hide(list.clone()) };
                }
                for e in &tview {
                    let w = written(e);
                    let visible = match filter {
                        Filter::None => true,
                        Filter::Show(l) => l.contains(&w),
                        Filter::Hide(l) => !l.contains(&w),
                    };
                    let mut e2 = e.clone();
                    e2.name = format!("{}{}", pre, e.name);
                    if visible {
                        if !ex.iter().any(|x| x.name == e2.name && x.kind == e2.kind) {
                            ex.push(e2);
                        }
                    } else {
                        hid.push(e2);
                    }
                }
                for e in &thid {
                    let mut e2 = e.clone();
                    e2.name = format!("{}{}", pre, e.name);
                    hid.push(e2);
                }
            }
        }
        hid.retain(|h| !ex.iter().any(|x| x.name == h.name && x.kind == h.kind));
        exposed.push(ex);
        hidden.push(hid);
    }

    // ---- pass 3: simulate the load order, place `with` clauses ----
    let mut first_load: Vec<Vec<bool>> = mods.iter().map(|m| vec![false; m.loads.len()]).collect();
    {
        fn visit(i: usize, targets: &Vec<Vec<Option<usize>>>, loaded: &mut BTreeSet<usize>, first: &mut Vec<Vec<bool>>) {
            for k in 0..targets[i].len() {
                if let Some(j) = targets[i][k] {
                    if loaded.insert(j) {
                        first[i][k] = true;
                        visit(j, targets, loaded, first);
                    }
                }
            }
        }
        let mut loaded = BTreeSet::new();
        visit(n, &targets, &mut loaded, &mut first_load);
    }
    for i in 0..=n {
        let mut d = Dice::new(dice_of(i));
        d.i = 70;
        for k in 0..mods[i].loads.len() {
            let tview: Vec<Exposed> = match targets[i][k] {
                Some(j) => exposed[j].clone(),
                None => builtin_view(),
            };
            if targets[i][k].is_none() {
                if d.chance(12) {
                    let is_fwd = matches!(mods[i].loads[k].kind, LoadKind::Forward { .. });
                    mods[i].loads[k].with = vec![WithVar { name: "pi".to_string(), value: 3, default: is_fwd && d.chance(50) }];
                }
                continue;
            }
            let vars: Vec<&Exposed> = tview.iter().filter(|e| e.kind == Kind::Var).collect();
            let want = if first_load[i][k] { d.chance(30) } else { d.chance(5) };
            if !want || vars.is_empty() {
                continue;
            }
            let is_fwd = matches!(mods[i].loads[k].kind, LoadKind::Forward { .. });
            let defaults: Vec<&&Exposed> = vars.iter().filter(|e| e.default).collect();
            let mut with: Vec<WithVar> = vec![];
            let cnt = 1 + d.pick(2);
            for _ in 0..cnt {
                let bad = d.chance(8);
                let e: &Exposed = if bad || defaults.is_empty() {
                    vars[d.pick(vars.len())]
                } else {
                    defaults[d.pick(defaults.len())]
                };
                if with.iter().any(|w| w.name == e.name) {
                    continue;
                }
                with.push(WithVar { name: e.name.clone(), value: 50 + d.pick(50) as i64, default: is_fwd && d.chance(50) });
            }
            if d.chance(3) {
                with.push(WithVar { name: "zz".to_string(), value: 1, default: false });
            }
            mods[i].loads[k].with = with;
        }
    }

    // ---- pass 4: initialisers, function/mixin bodies, statements ----
    for i in 0..=n {
        let is_entry = i == n;
        let tag = if is_entry { 9 } else { i };
        let mut d = Dice::new(dice_of(i));
        d.i = 90;
        // reference candidates through this file's @use rules
        let mut cands: Vec<Cand> = vec![];
        let mut bad_private: Vec<Cand> = vec![];
        let mut bad_hidden: Vec<Cand> = vec![];
        let mut direct_builtin_ns: Vec<String> = vec![];
        for k in 0..mods[i].loads.len() {
            match &mods[i].loads[k].kind {
                LoadKind::Use { ns } => {
                    let nsname = match ns {
                        Ns::Default => Some(default_ns(&mods[i].loads[k].url)),
                        Ns::As(s) => Some(s.clone()),
                        Ns::Star => None,
                    };
                    if targets[i][k].is_none() {
                        if let Some(nm) = &nsname {
                            direct_builtin_ns.push(nm.clone());
                        }
                    }
                    let (tview, thid): (Vec<Exposed>, Vec<Exposed>) = match targets[i][k] {
                        Some(j) => (exposed[j].clone(), hidden[j].clone()),
                        None => (builtin_view(), vec![]),
                    };
                    for e in &tview {
                        if e.builtin && (nsname.is_none() || e.kind == Kind::Var) {
                            continue;
                        }
                        cands.push(Cand { ns: nsname.clone(), name: e.name.clone(), kind: e.kind, builtin: e.builtin, why: Why::Valid });
                    }
                    for e in &thid {
                        bad_hidden.push(Cand { ns: nsname.clone(), name: e.name.clone(), kind: e.kind, builtin: false, why: Why::Filtered });
                    }
                    if let Some(j) = targets[i][k] {
                        for v in mods[j].vars.iter().filter(|v| v.name.starts_with('-')) {
                            bad_private.push(Cand { ns: nsname.clone(), name: v.name.clone(), kind: Kind::Var, builtin: false, why: Why::Private });
                        }
                        for f in mods[j].fns.iter().filter(|f| f.name.starts_with('-')) {
                            bad_private.push(Cand { ns: nsname.clone(), name: f.name.clone(), kind: Kind::Fn, builtin: false, why: Why::Private });
                        }
                        for m in mods[j].mixins.iter().filter(|m| m.name.starts_with('-')) {
                            bad_private.push(Cand { ns: nsname.clone(), name: m.name.clone(), kind: Kind::Mixin, builtin: false, why: Why::Private });
                        }
                    }
                }
                LoadKind::Forward { prefix, .. } => {
                    // forwarded members are not visible inside the forwarding file: invalid candidates
                    if let Some(j) = targets[i][k] {
                        let pre = prefix.clone().unwrap_or_default();
                        for e in &exposed[j] {
                            bad_hidden.push(Cand { ns: None, name: format!("{}{}", pre, e.name), kind: e.kind, builtin: false, why: Why::NotUsed });
                        }
                    }
                }
            }
        }
        // a global built-in function name through the namespace of a user module that has no such member
        let user_ns: Vec<String> = cands.iter().filter(|c| !c.builtin).filter_map(|c| c.ns.clone()).collect::<BTreeSet<_>>().into_iter().collect();
        for nsn in &user_ns {
            let has = |n: &str| cands.iter().any(|c| c.ns.as_ref() == Some(nsn) && c.name == n && c.kind == Kind::Fn);
            if !has("max") && !has("min") {
                bad_hidden.push(Cand { ns: Some(nsn.clone()), name: "max".into(), kind: Kind::Fn, builtin: true, why: Why::GlobalViaNs });
            }
        }
        // a namespace that exists in another file only / nowhere
        bad_hidden.push(Cand { ns: Some("nope".into()), name: format!("v{}", tag), kind: Kind::Var, builtin: false, why: Why::NoNamespace });
        // a forwarded-through-prefix member under its unprefixed name is covered by `hidden` only when
        // filtered; add wrong-prefix spellings explicitly
        let wrong: Vec<Cand> = cands
            .iter()
            .filter(|c| c.name.starts_with("p-") || c.name.starts_with("q-"))
            .map(|c| Cand { ns: c.ns.clone(), name: c.name[2..].to_string(), kind: c.kind, builtin: false, why: Why::WrongPrefix })
            .collect();
        let wrong: Vec<Cand> = wrong
            .into_iter()
            .filter(|w| !cands.iter().any(|c| c.ns == w.ns && c.name == w.name && c.kind == w.kind))
            .collect();
        bad_hidden.extend(wrong);

        let own_vars: Vec<String> = mods[i].vars.iter().map(|v| v.name.clone()).collect();
        let own_fns: Vec<String> = mods[i].fns.iter().map(|f| f.name.clone()).collect();
        let own_mixins: Vec<String> = mods[i].mixins.iter().map(|m| m.name.clone()).collect();

        // pick a reference of a kind: (ns, name, builtin)
        fn pick_ref(
            d: &mut Dice,
            kind: Kind,
            own: &[String],
            cands: &[Cand],
            bad_private: &[Cand],
            bad_hidden: &[Cand],
            allow_bad: bool,
        ) -> Option<(Option<String>, String, bool)> {
            if allow_bad && d.chance(8) {
                // category first, so that the rare categories are not drowned by the common ones
                let cat = d.pick(20);
                let pool: Vec<&Cand> = match cat {
                    0..=3 => bad_private.iter().filter(|c| c.kind == kind).collect(),
                    4..=12 => bad_hidden.iter().filter(|c| c.kind == kind && c.why == Why::Filtered).collect(),
                    13..=15 => bad_hidden.iter().filter(|c| c.kind == kind && c.why == Why::WrongPrefix).collect(),
                    16..=17 => bad_hidden.iter().filter(|c| c.kind == kind && c.why == Why::NotUsed).collect(),
                    18 => bad_hidden.iter().filter(|c| c.kind == kind && c.why == Why::GlobalViaNs).collect(),
                    _ => bad_hidden.iter().filter(|c| c.kind == kind && c.why == Why::NoNamespace).collect(),
                };
                if !pool.is_empty() {
                    let c = pool[d.pick(pool.len())];
                    // `_` and `-` are interchangeable: a private name may be spelled either way
                    let name = if c.why == Why::Private && d.chance(40) { c.name.replacen('-', "_", 1) } else { c.name.clone() };
                    return Some((c.ns.clone(), name, c.builtin));
                }
            }
            let ext: Vec<&Cand> = cands.iter().filter(|c| c.kind == kind).collect();
            let total = own.len() + 2 * ext.len();
            if total == 0 {
                return None;
            }
            let k = d.pick(total);
            if k < own.len() {
                let name = if own[k].starts_with('-') && d.chance(30) { own[k].replacen('-', "_", 1) } else { own[k].clone() };
                Some((None, name, false))
            } else {
                let c = ext[(k - own.len()) / 2];
                Some((c.ns.clone(), c.name.clone(), c.builtin))
            }
        }

        fn gen_expr(
            d: &mut Dice,
            depth: u32,
            param: bool,
            own_vars: &[String],
            own_fns: &[String],
            cands: &[Cand],
            bp: &[Cand],
            bh: &[Cand],
        ) -> Expr {
            let choice = d.pick(if depth == 0 { 4 } else { 8 });
            match choice {
                0 => Expr::Lit(d.pick(20) as i64),
                1 | 2 | 3 => match pick_ref(d, Kind::Var, own_vars, cands, bp, bh, true) {
                    Some((ns, name, _)) => Expr::Var { ns, name },
                    None => {
                        if param {
                            Expr::Param
                        } else {
                            Expr::Lit(1)
                        }
                    }
                },
                4 | 5 => match pick_ref(d, Kind::Fn, own_fns, cands, bp, bh, true) {
                    Some((ns, name, builtin)) => {
                        let a = gen_expr(d, depth - 1, param, own_vars, own_fns, cands, bp, bh);
                        let args = if builtin {
                            vec![a, gen_expr(d, 0, param, own_vars, own_fns, cands, bp, bh)]
                        } else {
                            vec![a]
                        };
                        Expr::Call { ns, name, args }
                    }
                    None => Expr::Lit(2),
                },
                6 => Expr::Add(
                    Box::new(gen_expr(d, depth - 1, param, own_vars, own_fns, cands, bp, bh)),
                    Box::new(gen_expr(d, depth - 1, param, own_vars, own_fns, cands, bp, bh)),
                ),
                _ => {
                    if param {
                        Expr::Param
                    } else {
                        Expr::Lit(3)
                    }
                }
            }
        }

        // variable initialisers: literals or reads of dependencies / earlier own variables
        let nv = mods[i].vars.len();
        for vi in 0..nv {
            let earlier: Vec<String> = own_vars[..vi].to_vec();
            let e = if d.chance(45) {
                gen_expr(&mut d, 1, false, &earlier, &[], &cands, &bad_private, &bad_hidden)
            } else {
                Expr::Lit(1 + (tag as i64) * 10 + vi as i64)
            };
            mods[i].vars[vi].value = e;
        }
        // functions: $x + something of this module or its dependencies (own functions: earlier ones only)
        let nf = mods[i].fns.len();
        for fi in 0..nf {
            let earlier: Vec<String> = own_fns[..fi].to_vec();
            let inner = gen_expr(&mut d, 1, true, &own_vars, &earlier, &cands, &bad_private, &bad_hidden);
            mods[i].fns[fi].body = Expr::Add(Box::new(Expr::Param), Box::new(inner));
        }
        let nm = mods[i].mixins.len();
        for mi in 0..nm {
            let cnt = 1 + d.pick(2);
            let mut body = vec![];
            for c in 0..cnt {
                let e = gen_expr(&mut d, 1, true, &own_vars, &own_fns, &cands, &bad_private, &bad_hidden);
                let pname = format!("{}-{}", mods[i].mixins[mi].name.trim_start_matches('-'), (b'a' + c as u8) as char);
                body.push((format!("{}{}", pname, tag), Expr::Add(Box::new(Expr::Param), Box::new(e))));
            }
            mods[i].mixins[mi].body = body;
        }
        // body
        let sel = if is_entry { ".e".to_string() } else { format!(".m{}", i) };
        let nst = if is_entry { 2 + d.pick(5) } else { 1 + d.pick(4) };
        let mut body: Vec<Stmt> = vec![];
        let mut prop_no = 0;
        let mut marker_done = false;
        for _ in 0..nst {
            let assignable: Vec<&Cand> = cands.iter().filter(|c| c.kind == Kind::Var && !c.builtin).collect();
            if d.chance(35) && !(assignable.is_empty() && own_vars.is_empty()) {
                // assignment
                let roll = d.pick(20);
                let (ns, name) = if roll == 19 && !bad_private.iter().all(|c| c.kind != Kind::Var) {
                    let p: Vec<&Cand> = bad_private.iter().filter(|c| c.kind == Kind::Var).collect();
                    let c = p[d.pick(p.len())];
                    (c.ns.clone(), c.name.clone())
                } else if roll == 18 && bad_hidden.iter().any(|c| c.kind == Kind::Var && c.ns.is_some()) {
                    // only through a namespace: an un-namespaced assignment would declare a new variable
                    // named like a forwarded member, which is kept out of the domain
                    let p: Vec<&Cand> = bad_hidden.iter().filter(|c| c.kind == Kind::Var && c.ns.is_some()).collect();
                    let c = p[d.pick(p.len())];
                    (c.ns.clone(), c.name.clone())
                } else if roll == 17 && !direct_builtin_ns.is_empty() {
                    // only through a direct `@use "sass:math"`: through an @forward grass accepts it (finding #32)
                    (Some(direct_builtin_ns[0].clone()), "pi".to_string())
                } else if !assignable.is_empty() && roll >= 3 {
                    let c = assignable[d.pick(assignable.len())];
                    (c.ns.clone(), c.name.clone())
                } else if !own_vars.is_empty() {
                    (None, own_vars[d.pick(own_vars.len())].clone())
                } else {
                    let c = assignable[d.pick(assignable.len())];
                    (c.ns.clone(), c.name.clone())
                };
                let value = if d.chance(50) {
                    Expr::Lit(100 + (tag as i64) * 10 + d.pick(10) as i64)
                } else {
                    gen_expr(&mut d, 1, false, &own_vars, &own_fns, &cands, &bad_private, &bad_hidden)
                };
                body.push(Stmt::Assign { ns, name, value, default: d.chance(12) });
            } else {
                let mut items = vec![];
                if !marker_done {
                    items.push(Item::Decl("id".to_string(), Expr::Lit(tag as i64)));
                    marker_done = true;
                }
                let cnt = 1 + d.pick(3);
                for _ in 0..cnt {
                    if d.chance(25) {
                        if let Some((ns, name, _)) = pick_ref(&mut d, Kind::Mixin, &own_mixins, &cands, &bad_private, &bad_hidden, true) {
                            let arg = gen_expr(&mut d, 1, false, &own_vars, &own_fns, &cands, &bad_private, &bad_hidden);
                            items.push(Item::Include { ns, name, arg });
                            continue;
                        }
                    }
                    let e = gen_expr(&mut d, 2, false, &own_vars, &own_fns, &cands, &bad_private, &bad_hidden);
                    items.push(Item::Decl(format!("p{}-{}", tag, prop_no), e));
                    prop_no += 1;
                }
                body.push(Stmt::Rule { selector: sel.clone(), items });
            }
        }
        if !marker_done {
            body.push(Stmt::Rule { selector: sel.clone(), items: vec![Item::Decl("id".to_string(), Expr::Lit(tag as i64))] });
        }
        mods[i].body = body;
    }

    // ---- cycles: an extra load from a module to itself / a later module / the entry ----
    {
        let mut g = Dice::new(&raw.global);
        if g.chance(7) {
            let a = g.pick(n);
            let b = a + g.pick(n + 1 - a); // a..=n (n = entry)
            let url = spell(dir_of(&mods[a].file), &mods[b].file, g.pick(2));
            let kind = if g.chance(40) {
                LoadKind::Forward { prefix: None, filter: Filter::None }
            } else {
                LoadKind::Use { ns: Ns::As("cyc".to_string()) }
            };
            let at = g.pick(mods[a].loads.len() + 1);
            mods[a].loads.insert(at, Load { kind, url, with: vec![] });
        }
    }

    Project { mods }
}

/// static shape facts used for the class histogram
pub fn shape_tags(p: &Project) -> Vec<&'static str> {
    let mut t = vec![];
    let mut spellings: BTreeMap<String, BTreeSet<String>> = BTreeMap::new();
    for m in &p.mods {
        for l in &m.loads {
            let key = l.url.rsplit('/').next().unwrap_or("").trim_start_matches('_').trim_end_matches(".scss").to_string();
            spellings.entry(key).or_default().insert(l.url.clone());
            match &l.kind {
                LoadKind::Use { ns } => {
                    t.push(match ns {
                        Ns::Default => "use-default-ns",
                        Ns::As(_) => "use-as",
                        Ns::Star => "use-star",
                    });
                    if !l.with.is_empty() {
                        t.push("use-with");
                    }
                }
                LoadKind::Forward { prefix, filter } => {
                    t.push("forward");
                    if prefix.is_some() {
                        t.push("forward-prefix");
                    }
                    match filter {
                        Filter::Show(_) => t.push("forward-show"),
                        Filter::Hide(_) => t.push("forward-hide"),
                        Filter::None => {}
                    }
                    if !l.with.is_empty() {
                        t.push("forward-with");
                    }
                }
            }
            if l.url.starts_with("sass:") {
                t.push("builtin-module");
            }
        }
    }
    if spellings.values().any(|s| s.len() > 1) {
        t.push("two-spellings-textual");
    }
    t.sort();
    t.dedup();
    t
}

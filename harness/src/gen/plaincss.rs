//! Plain CSS generator (C18): sheets that use no Sass feature, so that parsing them as CSS and as
//! SCSS must give the same result.

use super::chooser::Chooser;

const SELECTORS: &[&str] = &[
    "a", ".b", "#c", "a > b", "a + b", "a ~ b", "a b", ".x.y", "a:hover", "a::before", "[href=\"x\"]",
    "a:not(.b)", "*", ".é", "a:nth-child(2n+1)", "a, b", ".x, .y > z", "h1, h2, h3", "[data-x='y z']",
    "a:is(.b, .c)", "input[type=text]:focus", "ul li:first-child", "html body", ":root", "a:where(.b)",
];
const PROPS: &[&str] = &[
    "color", "margin", "content", "font-family", "background", "width", "x", "border-color",
    "transition", "grid-template-areas", "font", "-webkit-box-shadow", "--custom",
];
const VALUES: &[&str] = &[
    "0", "1", "10px", "-3em", "50%", "0.5", ".25", "1.5s", "90deg", "red", "blue", "transparent", "#f00",
    "#ff0000", "#ABCDEF", "#abcd", "rgb(255, 0, 0)", "rgba(0, 0, 0, 0.5)", "hsl(120, 100%, 50%)", "\"abc\"",
    "'a\"b'", "\"a'b\"", "\"a\\\\b\"", "\"é\"", "\"\\a\"", "\"\"", "abc", "sans-serif", "auto", "inherit", "1px 2px",
    "a, b", "1px 2px, 3px 4px", "1px solid red", "\"x\", \"y\"", "url(a.png)", "url(\"a b.png\")",
    "url(data:image/png;base64,AAAA==)", "var(--x)", "var(--x, 1px)", "env(safe-area-inset-top)",
    "translate(1px, 2px)", "foo(a b, c)", "linear-gradient(to right, red 0%, blue 100%)", "attr(data-x)",
    "rotate(45deg)", "cubic-bezier(0.1, 0.7, 1, 0.1)", "calc(1px + 2%)", "calc(100% - 10px)", "min(1px, 2%)",
    "1px !important", "bold", "none", "U+0-7F", "1e3", "1E3px", "+1", "-0", "1.", "00.50", "1px/2px", "12px/1.5 a",
    "[a b]", "[a, b]", "progid:foo", "alpha(opacity=50)", "10PX", "#FFF", "RED", "Red",
];

fn decl(c: &mut Chooser, ind: &str) -> String {
    let p = c.of(PROPS);
    let v = if p == "--custom" {
        c.of(&["1px", " { a: b }", "red", "  spaced   out ", "\"str\"", "calc(1px + 2px)", "a, b", "0.50", "#FF0000", "[1,2]"]).to_string()
    } else {
        c.of(VALUES).to_string()
    };
    format!("{}{}: {};\n", ind, p, v)
}

fn rule(c: &mut Chooser, ind: &str) -> String {
    let mut s = format!("{}{} {{\n", ind, c.of(SELECTORS));
    let n = 1 + c.pick(4);
    for _ in 0..n {
        if c.chance(1, 8) {
            s.push_str(&format!("{}  /* note {} */\n", ind, c.pick(3)));
        }
        s.push_str(&decl(c, &format!("{}  ", ind)));
    }
    s.push_str(&format!("{}}}\n", ind));
    s
}

pub fn gen_css(c: &mut Chooser) -> String {
    let mut s = String::new();
    if c.chance(1, 8) {
        s.push_str("@charset \"UTF-8\";\n");
    }
    if c.chance(1, 6) {
        s.push_str(c.of(&["@import url(\"x.css\");\n", "@import \"y.css\" screen;\n", "@import url(z.css) supports(display: grid);\n"]));
    }
    let n = 1 + c.pick(4);
    for _ in 0..n {
        match c.pick(10) {
            0 | 1 | 2 | 3 | 4 => s.push_str(&rule(c, "")),
            5 => {
                let q = c.of(&["screen", "(max-width: 600px)", "not print", "screen and (color), print", "only screen and (min-width: 10.5em)"]);
                s.push_str(&format!("@media {} {{\n{}}}\n", q, rule(c, "  ")));
            }
            6 => s.push_str(&format!("@supports (display: grid) and (not (display: inline-grid)) {{\n{}}}\n", rule(c, "  "))),
            7 => s.push_str(c.of(&["/* loud */\n", "/*! preserved */\n", "/* multi\n   line */\n"])),
            8 => s.push_str(&format!(
                "@font-face {{\n  font-family: {};\n  src: {};\n  unicode-range: {};\n}}\n",
                c.of(&["\"F\"", "F"]),
                c.of(&["url(a.woff)", "url(\"a.woff\") format(\"woff\")"]),
                c.of(&["U+0-7F", "U+26", "U+0025-00FF, U+4??"])
            )),
            _ => s.push_str(c.of(&[
                "@keyframes k {\n  from {\n    opacity: 0;\n  }\n  50.5% {\n    opacity: .5;\n  }\n  to {\n    opacity: 1;\n  }\n}\n",
                "@page :first {\n  margin: 1in;\n}\n",
                "@foo bar;\n",
                "@namespace svg url(http://www.w3.org/2000/svg);\n",
                "@media screen {\n  @media (min-width: 1px) {\n    a {\n      b: c;\n    }\n  }\n}\n",
            ])),
        }
    }
    s
}

/// Sass-only constructs: inserting one of them must make the sheet fail in plain-CSS mode
pub const SASS_ONLY: &[(&str, &str)] = &[
    ("variable-declaration", "$v: 1;\n"),
    ("variable-use", "a {\n  b: $v;\n}\n"),
    ("mixin", "@mixin m {\n  a: b;\n}\n"),
    ("include", "a {\n  @include m;\n}\n"),
    ("function", "@function f() {\n  @return 1;\n}\n"),
    ("if", "@if true {\n  a {\n    b: c;\n  }\n}\n"),
    ("each", "@each $i in 1 2 {\n  a {\n    b: c;\n  }\n}\n"),
    ("for", "@for $i from 1 through 2 {\n  a {\n    b: c;\n  }\n}\n"),
    ("while", "@while false {\n  a {\n    b: c;\n  }\n}\n"),
    ("nested-rule", "a {\n  b {\n    c: d;\n  }\n}\n"),
    ("parent-selector", "a {\n  &:hover {\n    c: d;\n  }\n}\n"),
    ("interpolation-value", "a {\n  b: #{c};\n}\n"),
    ("interpolation-selector", "a#{b} {\n  c: d;\n}\n"),
    ("silent-comment", "// comment\na {\n  b: c;\n}\n"),
    ("placeholder", "%p {\n  a: b;\n}\n"),
    ("extend", "a {\n  @extend b;\n}\n"),
    ("operator-plus", "a {\n  b: 1 + 2;\n}\n"),
    ("operator-times", "a {\n  b: 2 * 3;\n}\n"),
    ("sass-function", "a {\n  b: lighten(red, 10%);\n}\n"),
    ("debug", "@debug 1;\n"),
    ("warn", "@warn 1;\n"),
    ("error", "@error 1;\n"),
    ("at-root", "a {\n  @at-root b {\n    c: d;\n  }\n}\n"),
    ("content", "@content;\n"),
    ("return", "@return 1;\n"),
    ("nested-property", "a {\n  font: {\n    size: 1px;\n  }\n}\n"),
    ("default-flag", "a {\n  b: 1 !default;\n}\n"),
    ("map-literal", "a {\n  b: (c: d);\n}\n"),
];

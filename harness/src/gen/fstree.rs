//! Virtual directory trees for C13: an entry file with one Sass load (`@import`/`@use`/`@forward`) and
//! plain-CSS imports, 0-2 load paths, per location a random subset of the candidate files of the
//! URL's basename, near-miss files that are NOT candidates, an optional second-level load inside the
//! candidate files (resolved relative to *their* directory), and decoys that exist only on the real
//! disk. Ambiguous layouts (two same-priority candidates in one location) are removed by construction.
//!
//! Regions of confirmed findings are kept out by construction; every exclusion that changed a case is
//! recorded in `Case::excluded` (counted by the check). Each switch can be lifted after a repair.

use crate::engine::idx;
use crate::oracle::imports::{self as model, Resolution, Rule, Tree};
use proptest::prelude::*;
use serde::{Deserialize, Serialize};
use std::collections::BTreeMap;

/// finding C13/dotted-basename-extension-replaced (#13): `foo.bar` probes `foo.scss`
pub const EXCLUDE_DOTTED_BASENAMES: bool = false;
/// finding C13/explicit-ext-ignores-load-paths (#17a): `@use "x.scss"` is never looked up in load paths
pub const EXCLUDE_EXPLICIT_EXT_WITH_LOADPATH: bool = false;
/// finding C13/use-loads-import-only (#17b): `@use "x"` loads `x.import.scss`
pub const EXCLUDE_USE_IMPORT_ONLY: bool = false;
/// finding C13/explicit-ext-import-only-not-found (#17c, behavioural side of the malformed
/// `x..importscss` probe): `@import "x.scss"` does not prefer `x.import.scss`
pub const EXCLUDE_EXPLICIT_EXT_IMPORT_ONLY: bool = false;

#[derive(Clone, Debug, Serialize, Deserialize, PartialEq, Eq, Hash)]
pub struct Stmt {
    pub rule: Rule,
    pub url: String,
}

/// One plain-CSS import argument as written after `@import ` (e.g. `"x.css" screen`, `url(x.css)`).
#[derive(Clone, Debug, Serialize, Deserialize, PartialEq, Eq, Hash)]
pub struct Plain {
    pub text: String,
}

#[derive(Clone, Debug, Serialize, Deserialize, PartialEq, Eq, Hash)]
pub struct VFile {
    /// path as given to the in-memory Fs (already normalised)
    pub path: String,
    /// the file's content is the rule `.m<marker>{x:y}` in the syntax of its extension
    pub marker: u32,
    /// a load at the top of the file (only in .scss/.sass files)
    pub nested: Option<Stmt>,
    /// 0 = candidate family of the entry's load, 1 = of the nested load, 2 = near miss (never a candidate)
    pub fam: u8,
}

#[derive(Clone, Debug, Serialize, Deserialize, PartialEq, Eq, Hash)]
pub struct Decoy {
    /// relative to the worker's working directory; exists only on the real disk
    pub path: String,
    /// content is `.d<marker>{x:y}`
    pub marker: u32,
}

#[derive(Clone, Debug, Serialize, Deserialize, PartialEq, Eq, Hash)]
pub struct Case {
    /// e.g. `proj/src/entry.scss`; its marker is 0
    pub entry: String,
    pub load_paths: Vec<String>,
    /// the Sass load in the entry (None: only plain-CSS imports)
    pub stmt: Option<Stmt>,
    pub plain: Vec<Plain>,
    /// `@import "x", "x.css";` – the load and the plain imports share one rule (only for @import)
    pub joined: bool,
    pub files: Vec<VFile>,
    pub decoys: Vec<Decoy>,
    /// exclusions (known-finding regions) that changed this case during generation
    #[serde(default)]
    pub excluded: Vec<String>,
    /// a separate scenario family (the other fields are then unused): the same URL text loaded
    /// several times from importers in different directories
    #[serde(default)]
    pub repeat: Option<Repeat>,
}

/// `@import "<url>"` executed `steps.len()` times: step d = 0 directly in the entry (`proj/entry.scss`),
/// d = 1, 2 through `proj/p<d>/go<i>.scss`, whose only statement is the same `@import "<url>"`.
/// `present[0..3]` say whether `proj/`, `proj/p1/`, `proj/p2/` and the load path `lp/` hold a file for
/// the URL (bit 0) and whether it is a partial (bit 1); markers are 1 + index.
#[derive(Clone, Debug, Serialize, Deserialize, PartialEq, Eq, Hash)]
pub struct Repeat {
    pub url: String,
    pub present: [u8; 4],
    pub with_load_path: bool,
    pub steps: Vec<u8>,
}

pub fn repeat_strategy() -> BoxedStrategy<Case> {
    (any::<bool>(), any::<[u8; 4]>(), any::<bool>(), proptest::collection::vec(0u8..3, 3..7))
        .prop_map(|(sub, mut present, with_load_path, steps)| {
            present[0] |= 1; // the entry's own directory always has the file
            Case {
                entry: "proj/entry.scss".into(),
                load_paths: if with_load_path { vec!["lp".into()] } else { vec![] },
                stmt: None,
                plain: vec![],
                joined: false,
                files: vec![],
                decoys: vec![],
                excluded: vec![],
                repeat: Some(Repeat { url: if sub { "u/x".into() } else { "x".into() }, present, with_load_path, steps }),
            }
        })
        .boxed()
}

#[derive(Clone, Debug)]
pub struct Raw {
    entry_dir: u16,
    entry_sass: u8,
    n_lp: u16,
    lp: [u16; 2],
    rule: u16,
    base: u16,
    prefix: u16,
    ext: u16,
    masks: [(u32, u32, u8); 3],
    rot: u16,
    near: [u16; 3],
    nested_on: u8,
    nrule: u16,
    nurl: u16,
    nmasks: [(u32, u32, u8); 4],
    plain: Vec<u16>,
    joined: bool,
    no_dynamic: u8,
    decoys: Vec<(u16, bool)>,
}

pub fn raw() -> impl Strategy<Value = Raw> {
    let m = || (any::<u32>(), any::<u32>(), any::<u8>());
    (
        (any::<u16>(), any::<u8>(), any::<u16>(), any::<[u16; 2]>(), any::<u16>()),
        (any::<u16>(), any::<u16>(), any::<u16>(), [m(), m(), m()], any::<u16>(), any::<[u16; 3]>()),
        (any::<u8>(), any::<u16>(), any::<u16>(), [m(), m(), m(), m()]),
        (
            proptest::collection::vec(any::<u16>(), 0..3),
            any::<bool>(),
            any::<u8>(),
            proptest::collection::vec((any::<u16>(), any::<bool>()), 0..4),
        ),
    )
        .prop_map(
            |(
                (entry_dir, entry_sass, n_lp, lp, rule),
                (base, prefix, ext, masks, rot, near),
                (nested_on, nrule, nurl, nmasks),
                (plain, joined, no_dynamic, decoys),
            )| Raw {
                entry_dir,
                entry_sass,
                n_lp,
                lp,
                rule,
                base,
                prefix,
                ext,
                masks,
                rot,
                near,
                nested_on,
                nrule,
                nurl,
                nmasks,
                plain,
                joined,
                no_dynamic,
                decoys,
            },
        )
}

pub fn strategy() -> BoxedStrategy<Case> {
    raw().prop_map(|r| build(&r)).boxed()
}

pub const ENTRY_DIRS: [&str; 5] = ["proj/src", "proj/src", "proj", "", "proj/src/app"];
pub const LOAD_PATHS: [&str; 7] = [
    "proj/lib",
    "vendor",
    "proj/src/sub",
    "proj/lib/../lib2",
    ".",
    "proj",
    "proj/src",
];
const RULES: [Rule; 6] = [Rule::Import, Rule::Import, Rule::Import, Rule::Use, Rule::Use, Rule::Forward];
pub const BASES: [&str; 8] = ["x", "x", "x", "foo.bar", "foo.bar", "x.y.z", "_x", "x"];
const PREFIXES: [&str; 9] = ["", "", "", "sub/", "../", "../sub/", "sub/", "./", "sub/../"];
const EXTS: [&str; 8] = ["", "", "", "", "", ".scss", ".sass", ".css"];
const NURLS: [&str; 8] = ["y", "y", "sub/y", "../y", "y.scss", "y.z", "y", "../sub/y"];
const PLAIN: [&str; 14] = [
    "\"{u}.css\"",
    "\"{u}\" screen",
    "url({u}.css)",
    "url(\"{u}.scss\")",
    "\"http://e.test/{u}\"",
    "\"https://e.test/{u}.scss\"",
    "\"//e.test/{u}\"",
    "\"{u}.scss\" screen and (min-width: 1px)",
    "\"{u}\" supports(display: grid)",
    "\"{u}\" supports(display: grid) screen",
    "url({u}) print",
    "\"{u}.css\" screen",
    "url({u}.scss)",
    "\"{u}\" print, screen",
];

/// number of the 16 nibble values for which a priority group is populated. The importing
/// directory (loc 0) is left empty more often so that load paths get to decide.
fn threshold(d: u8, loc: usize, explicit: bool) -> u32 {
    let t = match (d % 8, loc) {
        (0, _) | (1, 0) | (2, 0) => 0,
        (1, _) | (2, _) | (3, 0) => 3,
        (3, _) | (4, _) => 5,
        (5, _) | (6, _) => 7,
        _ => 10,
    };
    // an explicit-extension URL has only one or two groups per location
    if explicit {
        (t * 5 / 2).min(14)
    } else {
        t
    }
}

/// `VP_C13_LIFT=dotted,explicit-loadpath,use-import-only,explicit-import-only,malformed-probe,use-probe`
/// (or `all`) lifts exclusions at run time without a rebuild – for confirming a repair / triage only.
pub fn lifted(name: &str) -> bool {
    static L: std::sync::OnceLock<Vec<String>> = std::sync::OnceLock::new();
    let l = L.get_or_init(|| {
        std::env::var("VP_C13_LIFT")
            .map(|v| v.split(',').map(|s| s.trim().to_string()).collect())
            .unwrap_or_default()
    });
    l.iter().any(|x| x == name || x == "all")
}

fn excl_dotted() -> bool {
    EXCLUDE_DOTTED_BASENAMES && !lifted("dotted")
}
fn excl_explicit_lp() -> bool {
    EXCLUDE_EXPLICIT_EXT_WITH_LOADPATH && !lifted("explicit-loadpath")
}
fn excl_use_import_only() -> bool {
    EXCLUDE_USE_IMPORT_ONLY && !lifted("use-import-only")
}
fn excl_explicit_import_only() -> bool {
    EXCLUDE_EXPLICIT_EXT_IMPORT_ONLY && !lifted("explicit-import-only")
}

fn is_sassy(path: &str) -> bool {
    path.ends_with(".scss") || path.ends_with(".sass")
}

fn undot(base: &str) -> String {
    base.replace('.', "")
}

struct Builder {
    files: BTreeMap<String, VFile>,
    next_marker: u32,
    excluded: Vec<String>,
}

impl Builder {
    fn note(&mut self, why: &str) {
        if !self.excluded.iter().any(|e| e == why) {
            self.excluded.push(why.to_string());
        }
    }
    fn add(&mut self, path: &str, fam: u8) {
        let p = model::normalize(path);
        if p.is_empty() || self.files.contains_key(&p) {
            return;
        }
        // a path cannot be a file and a directory at once
        let as_dir = format!("{}/", p);
        if self.files.keys().any(|k| k.starts_with(&as_dir) || p.starts_with(&format!("{}/", k))) {
            return;
        }
        let marker = self.next_marker;
        self.next_marker += 1;
        self.files.insert(
            p.clone(),
            VFile {
                path: p,
                marker,
                nested: None,
                fam,
            },
        );
    }
    fn tree(&self) -> Tree {
        Tree::new(self.files.keys().cloned())
    }

    /// Place a random subset of the candidates of `stmt` (searched from `from_file`) per location.
    fn place(&mut self, stmt: &Stmt, from_file: &str, load_paths: &[String], masks: &[(u32, u32, u8)], fam: u8) {
        // all groups, import-only ones included: for @use/@forward these files are non-candidates that
        // must be ignored (finding #17b keeps them out while EXCLUDE_USE_IMPORT_ONLY is set)
        let gs = model::groups(&stmt.url, from_file, load_paths, true);
        let explicit = model::explicit_ext(&stmt.url).is_some();
        let mut group_of_loc: BTreeMap<usize, u32> = BTreeMap::new();
        for g in gs {
            let (m_present, m_choice, d) = masks.get(g.loc).copied().unwrap_or((0, 0, 0));
            let k = group_of_loc.entry(g.loc).or_insert(0);
            let gi = *k % 8;
            *k += 1;
            // all-zero raw values (the shrinking target) populate nothing
            let nib = (m_present >> (4 * gi)) & 15;
            if nib < 16 - threshold(d, g.loc, explicit) {
                continue;
            }
            if g.import_only {
                if stmt.rule != Rule::Import && excl_use_import_only() {
                    self.note("use-import-only (finding #17b)");
                    continue;
                }
                if stmt.rule == Rule::Import && explicit && excl_explicit_import_only() {
                    self.note("explicit-ext-import-only (finding #17c)");
                    continue;
                }
            }
            // unambiguous by construction: at most one file per priority group
            let c = ((m_choice >> (4 * gi)) & 15) as u16;
            let keep = g.paths[idx(c << 12, g.paths.len())].clone();
            self.add(&keep, fam);
        }
    }

    /// Remove extra files until no group of the search holds two files (aliased locations can
    /// re-introduce ambiguity after `place`).
    fn disambiguate(&mut self, stmt: &Stmt, from_file: &str, load_paths: &[String]) {
        loop {
            let amb = model::ambiguities(&self.tree(), &stmt.url, from_file, load_paths);
            match amb.first() {
                None => return,
                Some(hits) => {
                    for h in &hits[1..] {
                        self.files.remove(h);
                    }
                }
            }
        }
    }

    /// finding #17a: an explicit-extension URL must not be decided by a load path
    fn exclude_explicit_loadpath(&mut self, stmt: &Stmt, from_file: &str, load_paths: &[String]) {
        if !excl_explicit_lp() || model::explicit_ext(&stmt.url).is_none() {
            return;
        }
        loop {
            match model::resolve(&self.tree(), stmt.rule, &stmt.url, from_file, load_paths) {
                Resolution::Found { path, group } if group.loc > 0 => {
                    self.files.remove(&path);
                    self.note("explicit-ext-found-in-load-path (finding #17a)");
                }
                _ => return,
            }
        }
    }
}

fn near_misses(url: &str, base_dir: &str) -> Vec<String> {
    let p = model::join(base_dir, url);
    let dir = model::dirname(&p).to_string();
    let name = model::basename(&p).to_string();
    let stem_first = name.split('.').next().unwrap_or("x").to_string();
    let stem_last = match name.rfind('.') {
        Some(i) if i > 0 => name[..i].to_string(),
        _ => format!("{}x", name),
    };
    let j = |n: &str| model::join(&dir, n);
    vec![
        // what an extension-replacing implementation would find
        j(&format!("{}.scss", stem_last)),
        j(&format!("_{}.scss", stem_last)),
        j(&format!("{}.scss", stem_first)),
        // same name, one directory off
        model::join(base_dir, &format!("zz/{}.scss", name)),
        j(&format!("../{}.scss", name)),
        // index in the location itself instead of in name/
        j("index.scss"),
        j("_index.scss"),
        // other extensions / doubled extensions
        j(&format!("{}.txt", name)),
        j(&format!("{}.scss.bak", name)),
        j(&format!("{}.scss/index.scss", name)),
        j(&format!("{}/other.scss", name)),
        j(&format!("{}/index.txt", name)),
        j(&format!("_{}/index.scss", name)),
        j(&format!("{}/index/index.scss", name)),
        j(&format!("{}.import", name)),
        j(&format!("__{}.scss", name)),
    ]
}

pub fn build(r: &Raw) -> Case {
    let entry_dir = ENTRY_DIRS[idx(r.entry_dir, ENTRY_DIRS.len())];
    let entry_ext = if r.entry_sass >= 208 { "sass" } else { "scss" };
    let entry = model::join(entry_dir, &format!("entry.{}", entry_ext));
    let n_lp = idx(r.n_lp, 3);
    let mut load_paths: Vec<String> = vec![];
    for k in 0..n_lp {
        let lp = LOAD_PATHS[idx(r.lp[k], LOAD_PATHS.len())].to_string();
        if !load_paths.contains(&lp) {
            load_paths.push(lp);
        }
    }
    let mut b = Builder {
        files: BTreeMap::new(),
        next_marker: 1,
        excluded: vec![],
    };

    // ---- the entry's load ----
    let rule = RULES[idx(r.rule, RULES.len())];
    let mut base = BASES[idx(r.base, BASES.len())].to_string();
    let prefix = PREFIXES[idx(r.prefix, PREFIXES.len())];
    let mut ext = EXTS[idx(r.ext, EXTS.len())];
    if ext == ".css" && rule == Rule::Import {
        // `@import "x.css"` is a plain-CSS import, not a load
        ext = "";
    }
    if base.contains('.') && ext.is_empty() && excl_dotted() {
        base = undot(&base);
        b.note("dotted-basename (finding #13)");
    }
    let stmt = Stmt {
        rule,
        url: format!("{}{}{}", prefix, base, ext),
    };
    b.place(&stmt, &entry, &load_paths, &r.masks, 0);
    b.disambiguate(&stmt, &entry, &load_paths);
    b.exclude_explicit_loadpath(&stmt, &entry, &load_paths);

    // ---- the nested load, carried by every .scss/.sass candidate of the entry's load ----
    let nested = if r.nested_on >= 154 {
        let nrule = RULES[idx(r.nrule, RULES.len())];
        let mut nurl = NURLS[idx(r.nurl, NURLS.len())].to_string();
        if model::explicit_ext(&nurl).is_none() && model::basename(&nurl).contains('.') && excl_dotted() {
            nurl = format!("{}{}", &nurl[..nurl.len() - model::basename(&nurl).len()], undot(model::basename(&nurl)));
            b.note("dotted-basename (finding #13)");
        }
        Some(Stmt { rule: nrule, url: nurl })
    } else {
        None
    };
    if let Some(ns) = &nested {
        let carriers: Vec<String> = b.files.keys().filter(|p| is_sassy(p)).cloned().collect();
        // locations where the y-family may live: each carrier's directory (searched first from that
        // carrier), the entry's directory (a trap unless it is the carrier's), the load paths
        let mut k = 0usize;
        for c in carriers.iter().take(3) {
            // `place` with location 0 = the carrier's directory and the load paths after it
            let masks: Vec<(u32, u32, u8)> = (0..=load_paths.len()).map(|i| r.nmasks[(k + i) % 4]).collect();
            b.place(ns, c, &load_paths, &masks, 1);
            k += 1;
        }
        // trap: a y file next to the entry (only a candidate when the carrier lives there too)
        let trap_mask = vec![r.nmasks[3]];
        b.place(ns, &entry, &[], &trap_mask, 1);
        for c in &carriers {
            b.disambiguate(ns, c, &load_paths);
            b.exclude_explicit_loadpath(ns, c, &load_paths);
        }
        for c in &carriers {
            if let Some(f) = b.files.get_mut(c) {
                if f.fam == 0 {
                    f.nested = Some(ns.clone());
                }
            }
        }
    }

    // ---- near misses: files that are candidates of no search ----
    let mut cand_all = model::candidate_set(stmt.rule, &stmt.url, &entry, &load_paths, true);
    if let Some(ns) = &nested {
        let carriers: Vec<String> = b.files.values().filter(|f| f.nested.is_some()).map(|f| f.path.clone()).collect();
        for c in &carriers {
            cand_all.extend(model::candidate_set(ns.rule, &ns.url, c, &load_paths, true));
        }
    }
    let locs = model::locations(&entry, &load_paths);
    for (li, base_dir) in locs.iter().enumerate().take(3) {
        let pool = near_misses(&stmt.url, base_dir);
        let bits = r.near[li];
        // sparse: two independent picks per location
        for pick in [bits & 0xff, bits >> 8] {
            if pick >= 170 {
                let p = model::normalize(&pool[idx(((pick - 170) as u32 * 65535 / 86) as u16, pool.len())]);
                if !cand_all.contains(&p) {
                    b.add(&p, 2);
                }
            }
        }
    }
    // a near miss may have created a directory `name/`: that only enables the index search, whose
    // candidates are already accounted for; ambiguity is unaffected (near misses are never candidates)

    // ---- plain-CSS imports ----
    let u = format!("{}{}", prefix, base);
    let plain: Vec<Plain> = r
        .plain
        .iter()
        .map(|i| Plain {
            text: PLAIN[idx(*i, PLAIN.len())].replace("{u}", &u),
        })
        .collect();
    let no_dynamic = r.no_dynamic >= 230 && !plain.is_empty();

    // ---- decoys on the real disk ----
    let mut decoys: Vec<Decoy> = vec![];
    let pool: Vec<String> = cand_all
        .iter()
        .filter(|p| is_candidate_file(p) && !p.starts_with("..") && !p.starts_with('/') && !p.is_empty())
        .cloned()
        .collect();
    for (i, shadow) in &r.decoys {
        if pool.is_empty() {
            break;
        }
        let p = pool[idx(*i, pool.len())].clone();
        // `shadow` = may coincide with a file of the virtual tree (different content on disk)
        if b.files.contains_key(&p) && !*shadow {
            continue;
        }
        // a decoy path must not need a directory where the other decoys have a file, or vice versa
        if decoys
            .iter()
            .any(|d| d.path == p || d.path.starts_with(&format!("{}/", p)) || p.starts_with(&format!("{}/", d.path)))
        {
            continue;
        }
        decoys.push(Decoy {
            path: p,
            marker: 900 + decoys.len() as u32,
        });
    }

    Case {
        entry,
        load_paths,
        stmt: if no_dynamic { None } else { Some(stmt) },
        plain,
        joined: r.joined && rule == Rule::Import && !no_dynamic,
        files: b.files.into_values().collect(),
        decoys,
        excluded: b.excluded,
        repeat: None,
    }
}

fn is_candidate_file(p: &str) -> bool {
    p.ends_with(".scss") || p.ends_with(".sass") || p.ends_with(".css")
}

/// A constant set of directories (relative, inside the working directory, spelled as the search
/// spells them, e.g. `proj/lib/../lib2`) that covers the parent directories of most candidate paths.
/// The check creates it once per worker directory on the REAL disk so that decoy files only cost a
/// create + unlink; being constant, it keeps the disk state a function of the case alone.
pub fn skeleton_dirs() -> Vec<String> {
    let mut out: Vec<String> = vec![];
    let mut bases: Vec<String> = vec![];
    for b in ENTRY_DIRS.iter().chain(LOAD_PATHS.iter()) {
        if !bases.contains(&b.to_string()) {
            bases.push(b.to_string());
        }
    }
    // the `name/` directories of the index search are created per case (they are decoy state: a real
    // directory makes a disk-reading implementation take the index branch)
    let names: Vec<String> = vec![];
    for b in &bases {
        for pre in ["", "sub", "..", "../sub", "sub/.."] {
            let d = model::join(b, pre);
            let n = model::normalize(&d);
            if n.starts_with("..") || n.starts_with('/') {
                continue;
            }
            for name in std::iter::once(String::new()).chain(names.iter().cloned()) {
                let dd = if name.is_empty() { d.clone() } else { model::join(&d, &name) };
                if !dd.is_empty() && dd != "." && !out.contains(&dd) {
                    out.push(dd);
                }
            }
        }
    }
    out
}

//! Text-level generators: token dictionary, crude tokenizer, mutation operators, token soup and
//! built-in function calls with well- and ill-typed arguments.

use crate::engine::idx;
use proptest::prelude::*;
use serde::{Deserialize, Serialize};

pub const AT_RULES: &[&str] = &[
    "@import", "@use", "@forward", "@mixin", "@include", "@function", "@return", "@if", "@else",
    "@else if", "@each", "@for", "@while", "@extend", "@at-root", "@media", "@supports",
    "@keyframes", "@font-face", "@charset", "@debug", "@warn", "@error", "@content", "@namespace",
    "@page", "@-moz-document", "@foo", "@-webkit-keyframes",
];

pub const PUNCT: &[&str] = &[
    "{", "}", "(", ")", "[", "]", ";", ":", ",", ".", "#", "#{", "}", "&", "%", "$", "@", "!",
    "+", "-", "*", "/", "=", "==", "!=", "<", ">", "<=", ">=", "~", "|", "^", "\"", "'", "\\",
    "/*", "*/", "//", "...", "!important", "!default", "!global", "!optional", "\n", "\n  ",
    "\n    ", " ", "\t", "\r\n", "\u{c}", "url(", "u+", "\u{feff}", "-", "--", "_",
    // white space that is not ASCII white space (identifier characters to the parser, white space to `char::is_whitespace`)
    "\u{a0}", "\u{85}", "\u{2003}", "\u{3000}", "\u{2028}", "\u{1680}", "\u{200b}", "\u{b}",
];

pub const WORDS: &[&str] = &[
    "a", "b", "c", "foo", "bar", "color", "red", "blue", "transparent", "null", "true", "false",
    "and", "or", "not", "in", "from", "through", "to", "as", "with", "show", "hide", "using",
    "only", "screen", "print", "all", "$a", "$b", "$args", "$foo-bar", "$foo_bar", "%p", ".c",
    "#id", ":hover", "::before", ":not(", ":is(", ":nth-child(", "calc(", "min(", "max(", "clamp(",
    "var(", "env(", "element(", "expression(", "progid:", "rgb(", "hsl(", "if(", "math.div(",
    "map.get(", "\"sass:math\"", "\"sass:map\"", "\"sass:meta\"", "\"sass:list\"",
    "\"sass:string\"", "\"sass:color\"", "\"sass:selector\"", "meta.load-css(", "@content(",
    "infinity", "NaN", "-infinity", "pi", "e", "#fff", "#abcdef12", "#ggg", "U+0-7F", "é", "😀",
    "\u{301}", "\\61", "\\0", "\\\n", "1", "0", "-1", ".5", "1.", "1e3", "1e-3", "1e999",
    "1e-999", "99999999999999999999", "0.00000000001", "1px", "1em", "1%", "1deg", "1s", "1dpi",
    "1in", "1fr", "1px*1px", "1/0", "0/0", "-0", "+1", "1e", "1e+", "0x10",
    // sign / dot / exponent boundaries of the number lexer
    "-.", "+.", "-.5", "+.5e", "-.x", "+.e", "1.e3", "1.5.2", "-..", ".e1", "1e-", "-.5e+",
    // multi-byte text followed by a loud comment on the same line (character column != byte offset)
    "/* 注釈です */ /* end */", "\"日本語\"; /* end */", "\"ééé\"}/*! end */", "/* é😀 */ /*! x\n y */",
];

pub const GLOBAL_FNS: &[&str] = &[
    "abs", "adjust-color", "adjust-hue", "alpha", "append", "blue", "call", "ceil", "change-color",
    "comparable", "complement", "content-exists", "darken", "desaturate", "fade-in", "fade-out",
    "feature-exists", "floor", "function-exists", "get-function", "grayscale", "green", "hsl",
    "hsla", "hue", "ie-hex-str", "if", "index", "inspect", "invert", "is-bracketed",
    "is-superselector", "join", "keywords", "length", "lighten", "lightness", "list-separator",
    "map-get", "map-has-key", "map-keys", "map-merge", "map-remove", "map-values", "max", "min",
    "mix", "mixin-exists", "nth", "opacify", "opacity", "percentage", "quote", "random", "red",
    "rgb", "rgba", "round", "saturate", "saturation", "scale-color", "selector-append",
    "selector-extend", "selector-nest", "selector-parse", "selector-replace", "selector-unify",
    "set-nth", "simple-selectors", "str-index", "str-insert", "str-length", "str-slice",
    "to-lower-case", "to-upper-case", "transparentize", "type-of", "unique-id", "unit", "unitless",
    "unquote", "variable-exists", "zip", "hwb", "calc", "clamp", "min", "max", "url", "var",
];

pub const MODULE_FNS: &[(&str, &[&str])] = &[
    ("color", &["adjust", "alpha", "blue", "change", "complement", "grayscale", "green", "hue",
        "ie-hex-str", "invert", "lightness", "mix", "red", "saturation", "scale", "blackness",
        "whiteness", "hwb"]),
    ("list", &["append", "index", "is-bracketed", "join", "length", "separator", "nth", "set-nth",
        "zip", "slash"]),
    ("map", &["get", "has-key", "keys", "merge", "remove", "values", "set", "deep-merge",
        "deep-remove"]),
    ("math", &["ceil", "floor", "max", "min", "round", "abs", "compatible", "is-unitless", "unit",
        "percentage", "clamp", "sqrt", "cos", "sin", "tan", "acos", "asin", "atan", "log", "pow",
        "hypot", "div", "atan2", "random"]),
    ("meta", &["feature-exists", "inspect", "type-of", "keywords", "global-variable-exists",
        "variable-exists", "function-exists", "mixin-exists", "content-exists",
        "module-variables", "module-functions", "get-function", "call", "calc-args", "calc-name"]),
    ("selector", &["is-superselector", "append", "extend", "nest", "parse", "replace", "unify",
        "simple-selectors"]),
    ("string", &["quote", "index", "insert", "length", "slice", "split", "to-lower-case",
        "to-upper-case", "unique-id", "unquote"]),
];

/// Argument texts for built-in calls: every value type, in-range and out-of-range.
pub const ARG_VALUES: &[&str] = &[
    "1", "0", "-1", "2", "3", "0.5", "1.5", "-0.5", "100", "255", "256", "-256", "1e10", "-1e10",
    "1e-12", "1px", "2em", "3%", "50%", "100%", "101%", "-1%", "90deg", "1turn", "1rad", "1s",
    "1in", "2.54cm", "1px*1px", "math.div(1px, 1em)", "math.div(1, 0)", "math.div(-1, 0)",
    "math.div(0, 0)", "9007199254740993", "1e300*1e300", "red", "#abc", "#aabbcc80", "transparent", "rgba(1, 2, 3, 0.5)",
    "hsl(120, 50%, 50%)", "\"\"", "\"a\"", "\"abc\"", "abc", "\"a b\"", "\"é😀\"", "\"a\\\"b\"",
    "\".a .b\"", "\".a, .b\"", "\"> a\"", "\"a >\"", "\"&\"", "\"%p\"", "\":not(.a)\"", "\"a:is(b, c)\"",
    "\"[a=b]\"", "\"*|a\"", "\"a + b ~ c\"", "\"::before\"", "\"\"", "\"(\"", "\",\"", "\"a,\"", "\" \"",
    "null", "true", "false", "()", "(1,)", "[1]", "[]", "(1 2 3)", "(1, 2, 3)", "[1 2]",
    "(a: 1)", "(a: 1, b: 2)", "(a: (b: (c: 1)))", "((a b): 1)", "(1 2, 3 4)", "(1/2)",
    "list.slash(1, 2)", "list.slash(1, 2, 3)", "append((), 1, $separator: slash)", "append((), 1 2 3, $separator: slash)",
    "join((), (), $separator: slash)", "join((), (), $separator: comma)", "append((), 1, $separator: comma)", "append([], 1)",
    "join(1, (), $bracketed: true)", "(1 2 3)", "(1 2 3, 4 5)", "(a b c / 0.5)", "1 2 3 / 0.5", "calc(1px + 1%)", "calc(1 + 2)", "min(1px, 1%)", "clamp(1px, 1%, 2px)",
    "calc(var(--x))", "var(--x)", "get-function(\"red\")", "get-function(\"calc\")",
    "$l...", "$m...", "$l", "$m", "$s", "$n", "$k: 1", "$list: 1 2", "$map: (a: 1)",
    "$string: \"x\"", "$color: red", "$number: 1", "$weight: 50%", "$amount: 10%",
    "$separator: comma", "$separator: slash", "$separator: foo", "$bracketed: true",
    "$n: 0", "$n: -1", "$index: 100", "$limit: 0", "$start-at: 0", "$end-at: -1",
    "a b", "a, b", "a/b", "1 + ", "+", "-", "*", "1,", ",", "&", "%", "#{1}", "#{\"a\"}",
];

#[derive(Clone, Debug, Serialize, Deserialize, PartialEq)]
pub enum MutOp {
    /// cut the text at char position frac*len
    Truncate(u16),
    DeleteTok(u16),
    DupTok(u16),
    SwapTok(u16, u16),
    /// replace token i with dictionary word j
    ReplaceTok(u16, u16),
    InsertTok(u16, u16),
    /// insert an opener without its closer before token i
    Opener(u16, u8),
    /// delete a single char at frac position
    DeleteChar(u16),
    /// newline style / indentation edits
    Newlines(u8),
    /// truncate right after token i (token-aligned EOF)
    TruncateTok(u16),
}

pub const OPENERS: &[&str] = &[
    "(", "[", "{", "\"", "'", "/*", "#{", "url(", "\"#{", "/* #{", "calc(", ":not(", "@if ", "@each $a in ",
    "@media (", "@include a(", "$a: ", "@function f(", "\\", "!", "@", "#", "&", "%", "//", "@import \"",
];

pub fn dict_word(j: u16) -> &'static str {
    let total = AT_RULES.len() + PUNCT.len() + WORDS.len();
    let k = idx(j, total);
    if k < AT_RULES.len() {
        AT_RULES[k]
    } else if k < AT_RULES.len() + PUNCT.len() {
        PUNCT[k - AT_RULES.len()]
    } else {
        WORDS[k - AT_RULES.len() - PUNCT.len()]
    }
}

/// crude tokenizer: words (letters, digits, - _ $ @ % . #), whitespace runs, strings are NOT kept
/// whole (so mutations can break them), every other char is its own token.
pub fn tokenize(s: &str) -> Vec<String> {
    let mut out = vec![];
    let mut cur = String::new();
    let mut kind = 0u8; // 0 none, 1 word, 2 space
    for c in s.chars() {
        let k = if c.is_alphanumeric() || c == '-' || c == '_' {
            1
        } else if c == ' ' || c == '\t' {
            2
        } else {
            3
        };
        if k == 3 {
            if !cur.is_empty() {
                out.push(std::mem::take(&mut cur));
            }
            out.push(c.to_string());
            kind = 0;
        } else {
            if kind != k && !cur.is_empty() {
                out.push(std::mem::take(&mut cur));
            }
            cur.push(c);
            kind = k;
        }
    }
    if !cur.is_empty() {
        out.push(cur);
    }
    out
}

pub fn apply_mutations(text: &str, ops: &[MutOp]) -> String {
    let mut s = text.to_string();
    for op in ops {
        s = apply_one(&s, op);
    }
    s
}

fn apply_one(s: &str, op: &MutOp) -> String {
    match op {
        MutOp::Truncate(f) => {
            let n = s.chars().count();
            s.chars().take(idx(*f, n + 1)).collect()
        }
        MutOp::DeleteChar(f) => {
            let n = s.chars().count();
            if n == 0 {
                return String::new();
            }
            let k = idx(*f, n);
            s.chars()
                .enumerate()
                .filter(|(i, _)| *i != k)
                .map(|(_, c)| c)
                .collect()
        }
        MutOp::Newlines(k) => match k % 6 {
            0 => s.replace('\n', "\r\n"),
            1 => s.replace('\n', "\r"),
            2 => s.replace('\n', "\u{c}"),
            3 => s.replace("\n", "\n  "),
            4 => s.replace("  ", "\t"),
            _ => s.replace('\n', " "),
        },
        _ => {
            let mut t = tokenize(s);
            let n = t.len();
            match op {
                MutOp::DeleteTok(i) if n > 0 => {
                    t.remove(idx(*i, n));
                }
                MutOp::DupTok(i) if n > 0 => {
                    let k = idx(*i, n);
                    let x = t[k].clone();
                    t.insert(k, x);
                }
                MutOp::SwapTok(i, j) if n > 1 => {
                    t.swap(idx(*i, n), idx(*j, n));
                }
                MutOp::ReplaceTok(i, j) if n > 0 => {
                    let k = idx(*i, n);
                    t[k] = dict_word(*j).to_string();
                }
                MutOp::InsertTok(i, j) => {
                    t.insert(idx(*i, n + 1), dict_word(*j).to_string());
                }
                MutOp::Opener(i, o) => {
                    t.insert(
                        idx(*i, n + 1),
                        OPENERS[(*o as usize) % OPENERS.len()].to_string(),
                    );
                }
                MutOp::TruncateTok(i) => {
                    t.truncate(idx(*i, n + 1));
                }
                _ => {}
            }
            t.concat()
        }
    }
}

pub fn mut_op() -> impl Strategy<Value = MutOp> {
    prop_oneof![
        3 => any::<u16>().prop_map(MutOp::Truncate),
        3 => any::<u16>().prop_map(MutOp::TruncateTok),
        2 => any::<u16>().prop_map(MutOp::DeleteTok),
        1 => any::<u16>().prop_map(MutOp::DupTok),
        1 => (any::<u16>(), any::<u16>()).prop_map(|(a, b)| MutOp::SwapTok(a, b)),
        2 => (any::<u16>(), any::<u16>()).prop_map(|(a, b)| MutOp::ReplaceTok(a, b)),
        2 => (any::<u16>(), any::<u16>()).prop_map(|(a, b)| MutOp::InsertTok(a, b)),
        3 => (any::<u16>(), any::<u8>()).prop_map(|(a, b)| MutOp::Opener(a, b)),
        1 => any::<u16>().prop_map(MutOp::DeleteChar),
        1 => any::<u8>().prop_map(MutOp::Newlines),
    ]
}

/// token soup: 3..40 dictionary words joined by "" or " "
pub fn token_soup() -> impl Strategy<Value = String> {
    proptest::collection::vec((any::<u16>(), any::<bool>()), 3..40).prop_map(|v| {
        let mut s = String::new();
        for (j, sp) in v {
            s.push_str(dict_word(j));
            if sp {
                s.push(' ');
            }
        }
        s
    })
}

/// a call of a built-in (global or module) with 0..4 arguments inside a small stylesheet that
/// defines $l (list), $m (map), $s (string), $n (number)
pub fn builtin_call() -> impl Strategy<Value = String> {
    let nfn: usize = GLOBAL_FNS.len() + MODULE_FNS.iter().map(|(_, f)| f.len()).sum::<usize>();
    (
        any::<u16>(),
        proptest::collection::vec(any::<u16>(), 0..5),
        any::<u8>(),
    )
        .prop_map(move |(f, args, ctx)| {
            let mut k = idx(f, nfn);
            let mut uses = String::new();
            let name = if k < GLOBAL_FNS.len() {
                GLOBAL_FNS[k].to_string()
            } else {
                k -= GLOBAL_FNS.len();
                let mut name = String::new();
                for (m, fs) in MODULE_FNS {
                    if k < fs.len() {
                        uses = format!("@use \"sass:{}\";\n", m);
                        name = format!("{}.{}", m, fs[k]);
                        break;
                    }
                    k -= fs.len();
                }
                name
            };
            let args: Vec<&str> = args
                .iter()
                .map(|a| ARG_VALUES[idx(*a, ARG_VALUES.len())])
                .collect();
            let call = format!("{}({})", name, args.join(", "));
            let math = if uses.contains("sass:math") || !call.contains("math.") {
                ""
            } else {
                "@use \"sass:math\";\n"
            };
            let list = if uses.contains("sass:list") || !call.contains("list.") {
                ""
            } else {
                "@use \"sass:list\";\n"
            };
            let pre = format!(
                "{}{}{}$l: 1 2 3; $m: (a: 1, b: 2); $s: \"abc\"; $n: 2;\n",
                uses, math, list
            );
            match ctx % 5 {
                0 => format!("{}a {{ b: {}; }}\n", pre, call),
                1 => format!("{}a {{ b: inspect({}); }}\n", pre, call),
                2 => format!("{}@debug {};\n", pre, call),
                3 => format!("{}a {{ b: #{{{}}}; c: ({}) == ({}); }}\n", pre, call, call, call),
                _ => format!("{}$x: {}; a {{ @if $x {{ b: type-of($x) }} }}\n", pre, call),
            }
        })
}

/// maximum nesting depth of brackets / blocks / interpolation, counted textually
pub fn bracket_depth(s: &str) -> usize {
    let mut d = 0usize;
    let mut m = 0usize;
    for c in s.chars() {
        match c {
            '(' | '[' | '{' => {
                d += 1;
                m = m.max(d);
            }
            ')' | ']' | '}' => d = d.saturating_sub(1),
            _ => {}
        }
    }
    m
}

/// deepest indentation level (indented syntax nests by indentation)
pub fn indent_depth(s: &str) -> usize {
    s.lines()
        .map(|l| l.chars().take_while(|c| *c == ' ' || *c == '\t').count())
        .max()
        .unwrap_or(0)
}

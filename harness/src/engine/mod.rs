pub mod pool;
pub mod proto;
pub mod runner;
pub mod worker;

pub use pool::Worker;
pub use proto::*;
pub use runner::*;

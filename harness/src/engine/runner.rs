//! Property runner: sharded proptest search + enumerated cases + regressions + known findings,
//! replay files and the evidence file.

use super::pool::Worker;
use super::proto::*;
use proptest::strategy::{BoxedStrategy, Strategy, ValueTree};
use proptest::test_runner::{Config, RngAlgorithm, TestCaseError, TestError, TestRng, TestRunner};
use serde::{de::DeserializeOwned, Deserialize, Serialize};
use serde_json::{json, Value};
use std::cell::RefCell;
use std::collections::{BTreeMap, HashSet};
use std::hash::{Hash, Hasher};
use std::path::PathBuf;
use std::time::Instant;

pub const SHARDS: usize = 16;

#[derive(Clone, Copy, Debug, PartialEq, Eq)]
pub enum Tier {
    Quick,
    Thorough,
}

impl Tier {
    pub fn name(self) -> &'static str {
        match self {
            Tier::Quick => "quick",
            Tier::Thorough => "thorough",
        }
    }
    pub fn pick<T>(self, q: T, t: T) -> T {
        match self {
            Tier::Quick => q,
            Tier::Thorough => t,
        }
    }
}

#[derive(Clone, Debug, Serialize, Deserialize)]
pub struct Failure {
    /// specific identity of the failure (used to match the known-findings file)
    pub signature: String,
    /// one-line human description
    pub what: String,
    /// expected / observed etc.
    pub details: Value,
}

impl Failure {
    pub fn new(signature: impl Into<String>, what: impl Into<String>, details: Value) -> Failure {
        Failure {
            signature: signature.into(),
            what: what.into(),
            details,
        }
    }
}

pub enum Verdict {
    Pass,
    Fail(Failure),
    /// the case is outside the property's domain (counted, not a pass)
    Discard,
}

#[derive(Default, Clone)]
pub struct Stats {
    pub evaluations: u64,
    pub compilations: u64,
    pub nontrivial: HashSet<u64>,
    pub classes: BTreeMap<String, u64>,
    pub excluded: BTreeMap<String, u64>,
    pub known_hits: BTreeMap<String, u64>,
    pub inconclusive: u64,
    pub discards: u64,
    pub samples: Vec<Value>,
    pub nt_samples: Vec<Value>,
    /// VP_TRIAGE=1: failures are collected per signature instead of stopping the search
    pub triage: BTreeMap<String, (u64, Value)>,
}

impl Stats {
    fn merge(&mut self, o: Stats) {
        self.evaluations += o.evaluations;
        self.compilations += o.compilations;
        self.nontrivial.extend(o.nontrivial);
        for (k, v) in o.classes {
            *self.classes.entry(k).or_insert(0) += v;
        }
        for (k, v) in o.excluded {
            *self.excluded.entry(k).or_insert(0) += v;
        }
        for (k, v) in o.known_hits {
            *self.known_hits.entry(k).or_insert(0) += v;
        }
        self.inconclusive += o.inconclusive;
        self.discards += o.discards;
        for (k, (n, v)) in o.triage {
            match self.triage.get_mut(&k) {
                None => {
                    self.triage.insert(k, (n, v));
                }
                Some(e) => {
                    e.0 += n;
                    let extra = json!({"case": v["case"], "what": v["what"], "details": v["details"]});
                    if let Some(a) = e.1.get_mut("more").and_then(|m| m.as_array_mut()) {
                        if a.len() < 10 {
                            a.push(extra);
                        }
                    }
                }
            }
        }
        for s in o.samples {
            if self.samples.len() < 4 {
                self.samples.push(s);
            }
        }
        for s in o.nt_samples {
            if self.nt_samples.len() < 6 {
                self.nt_samples.push(s);
            }
        }
    }
}

pub fn fingerprint<T: Hash + ?Sized>(t: &T) -> u64 {
    let mut h = std::collections::hash_map::DefaultHasher::new();
    t.hash(&mut h);
    h.finish()
}

pub struct Ctx {
    pub worker: Worker,
    pub tier: Tier,
    pub seed: u64,
    pub shard: usize,
    pub stats: Stats,
    pub counting: bool,
    /// strict = replay mode: known findings are not tolerated silently
    pub replay: bool,
}

impl Ctx {
    pub fn new(tier: Tier, seed: u64, shard: usize) -> Ctx {
        Ctx {
            worker: Worker::new(),
            tier,
            seed,
            shard,
            stats: Stats::default(),
            counting: true,
            replay: false,
        }
    }
    pub fn compile(&mut self, s: &Single) -> Res {
        if self.counting {
            self.stats.compilations += 1;
        }
        self.worker.one(s)
    }
    pub fn run_job(&mut self, j: &Job) -> Vec<Res> {
        if self.counting {
            self.stats.compilations += j.steps.len() as u64;
        }
        self.worker.run(j)
    }
    pub fn class(&mut self, name: &str) {
        if self.counting {
            *self.stats.classes.entry(name.to_string()).or_insert(0) += 1;
        }
    }
    pub fn class_n(&mut self, name: &str, n: u64) {
        if self.counting {
            *self.stats.classes.entry(name.to_string()).or_insert(0) += n;
        }
    }
    pub fn excluded(&mut self, why: &str) {
        if self.counting {
            *self.stats.excluded.entry(why.to_string()).or_insert(0) += 1;
        }
    }
    pub fn inconclusive(&mut self, why: &str) {
        if self.counting {
            self.stats.inconclusive += 1;
            *self
                .stats
                .classes
                .entry(format!("inconclusive:{}", why))
                .or_insert(0) += 1;
        }
    }
    /// mark the current case (identified by `key`) as non-trivial by the property's rule
    pub fn nontrivial<T: Hash + ?Sized>(&mut self, key: &T) {
        if self.counting {
            self.stats.nontrivial.insert(fingerprint(key));
        }
    }
    pub fn sample(&mut self, v: impl FnOnce() -> Value) {
        if self.counting && self.stats.samples.len() < 2 {
            let v = v();
            self.stats.samples.push(v);
        }
    }
    pub fn sample_nontrivial(&mut self, v: impl FnOnce() -> Value) {
        if self.counting && self.stats.nt_samples.len() < 2 {
            let v = v();
            self.stats.nt_samples.push(v);
        }
    }
    /// extra evaluations performed inside one case (e.g. 500 values in one compile)
    pub fn add_evaluations(&mut self, n: u64) {
        if self.counting {
            self.stats.evaluations += n;
        }
    }
}

pub trait Prop: Sync {
    type Case: Serialize + DeserializeOwned + std::fmt::Debug + Clone + Send + 'static;
    fn id(&self) -> &'static str;
    /// how cases are generated and what makes one non-trivial (goes into the evidence)
    fn rule(&self) -> String;
    fn assumptions(&self) -> Vec<String> {
        vec![]
    }
    /// generated search: strategy and total number of cases for the tier
    fn strategy(&self, tier: Tier) -> Option<(BoxedStrategy<Self::Case>, u32)>;
    /// enumerated cases (complete finite sub-spaces); `exhaustive` in evidence iff no strategy
    fn enumerate(&self, _tier: Tier) -> Vec<Self::Case> {
        vec![]
    }
    fn check(&self, case: &Self::Case, cx: &mut Ctx) -> Verdict;
    /// extra coverage keys for the evidence file
    fn extra_evidence(&self, _stats: &Stats) -> Value {
        json!({})
    }
    /// optional whole-run step executed once (shard 0) before the search, e.g. process-repeat checks
    fn prologue(&self, _cx: &mut Ctx) -> Vec<Failure> {
        vec![]
    }
}

pub fn verif_root() -> PathBuf {
    if let Ok(r) = std::env::var("VERIF_ROOT") {
        return PathBuf::from(r);
    }
    let exe = std::env::current_exe().unwrap_or_default();
    // <root>/harness/target/release/vp
    let guess = exe
        .parent()
        .and_then(|p| p.parent())
        .and_then(|p| p.parent())
        .and_then(|p| p.parent())
        .map(|p| p.to_path_buf());
    match guess {
        Some(g) if g.join("properties.jsonl").exists() => g,
        _ => PathBuf::from("/verif"),
    }
}

#[derive(Deserialize, Clone, Debug)]
pub struct KnownEntry {
    pub property: String,
    pub id: String,
    /// "known" | "fixed"
    pub status: String,
    pub signature: String,
    pub repro: Option<Value>,
    pub description: String,
    #[serde(default)]
    pub commit: Option<String>,
}

#[derive(Deserialize, Clone, Debug, Default)]
pub struct KnownFile {
    pub findings: Vec<KnownEntry>,
}

pub fn load_known(prop: &str) -> Vec<KnownEntry> {
    let p = verif_root().join("known_findings.json");
    let txt = match std::fs::read_to_string(&p) {
        Ok(t) => t,
        Err(_) => return vec![],
    };
    let f: KnownFile = serde_json::from_str(&txt).unwrap_or_else(|e| {
        eprintln!("known_findings.json is malformed: {}", e);
        std::process::exit(2);
    });
    f.findings
        .into_iter()
        .filter(|e| e.property == prop)
        .collect()
}

pub fn sig_matches(pattern: &str, sig: &str) -> bool {
    if let Some(pre) = pattern.strip_suffix('*') {
        sig.starts_with(pre)
    } else {
        pattern == sig
    }
}

fn derive_seed(seed: u64, id: &str, shard: usize) -> [u8; 32] {
    let mut out = [0u8; 32];
    let mut x = seed ^ 0x9e37_79b9_7f4a_7c15;
    for b in id.bytes() {
        x = x.wrapping_mul(0x100_0000_01b3) ^ b as u64;
    }
    x = x.wrapping_add((shard as u64).wrapping_mul(0xbf58_476d_1ce4_e5b9));
    for i in 0..4 {
        // splitmix64
        x = x.wrapping_add(0x9e37_79b9_7f4a_7c15);
        let mut z = x;
        z = (z ^ (z >> 30)).wrapping_mul(0xbf58_476d_1ce4_e5b9);
        z = (z ^ (z >> 27)).wrapping_mul(0x94d0_49bb_1331_11eb);
        z ^= z >> 31;
        out[i * 8..i * 8 + 8].copy_from_slice(&z.to_le_bytes());
    }
    out
}

pub fn env_seed() -> u64 {
    std::env::var("VERIF_SEED")
        .ok()
        .and_then(|s| s.trim().parse::<i64>().ok())
        .map(|v| v as u64)
        .unwrap_or(0)
}

struct ShardResult {
    stats: Stats,
    /// (minimal case, failure) – at most one per shard
    violation: Option<(Value, Failure)>,
    harness_error: Option<String>,
}

#[derive(Serialize, Deserialize)]
pub struct ReplayFile {
    pub property: String,
    pub case: Value,
    #[serde(default)]
    pub failure: Option<Failure>,
    #[serde(default)]
    pub note: Option<String>,
}

fn write_replay(id: &str, name: &str, case: &Value, f: &Failure) -> PathBuf {
    let dir = verif_root().join("replays").join(id);
    std::fs::create_dir_all(&dir).ok();
    let p = dir.join(format!("{}.json", name));
    let rf = ReplayFile {
        property: id.to_string(),
        case: case.clone(),
        failure: Some(f.clone()),
        note: None,
    };
    std::fs::write(&p, serde_json::to_string_pretty(&rf).unwrap()).ok();
    p
}

fn one_line(s: &str) -> String {
    let t: String = s
        .chars()
        .map(|c| if c == '\n' || c == '\r' { ' ' } else { c })
        .take(240)
        .collect();
    t
}

/// Run one property. Returns the process exit code.
pub fn run<P: Prop>(p: &P, tier: Tier, seed: u64) -> i32 {
    let t0 = Instant::now();
    let id = p.id();
    let known = load_known(id);
    let known_sigs: Vec<(String, String)> = known
        .iter()
        .filter(|e| e.status == "known")
        .map(|e| (e.signature.clone(), e.id.clone()))
        .collect();
    let mut violations: Vec<(Value, Failure, String)> = vec![];
    let mut total = Stats::default();
    let mut harness_errors: Vec<String> = vec![];

    // ---- phase 0: known findings, fixed findings, regressions (replay tier) ----
    {
        let mut cx = Ctx::new(tier, seed, 0);
        cx.replay = true;
        for e in &known {
            let case_v = match &e.repro {
                Some(v) => v.clone(),
                None => continue,
            };
            let case: P::Case = match serde_json::from_value(case_v.clone()) {
                Ok(c) => c,
                Err(err) => {
                    harness_errors.push(format!("known finding {}: bad repro: {}", e.id, err));
                    continue;
                }
            };
            let v = p.check(&case, &mut cx);
            match (e.status.as_str(), v) {
                ("known", Verdict::Fail(f)) => {
                    if sig_matches(&e.signature, &f.signature) {
                        println!(
                            "KNOWN-FINDING: property={} {} {}",
                            id,
                            e.id,
                            one_line(&e.description)
                        );
                        *total.known_hits.entry(e.id.clone()).or_insert(0) += 1;
                    } else {
                        violations.push((case_v, f, format!("known-{}", e.id)));
                    }
                }
                ("known", _) => {
                    println!(
                        "NOTE: property={} known finding {} no longer reproduces",
                        id, e.id
                    );
                }
                ("fixed", Verdict::Fail(f)) => {
                    violations.push((case_v, f, format!("fixed-{}", e.id)));
                }
                _ => {}
            }
        }
        let rdir = verif_root().join("regressions").join(id);
        let mut files: Vec<PathBuf> = std::fs::read_dir(&rdir)
            .map(|d| d.filter_map(|e| e.ok()).map(|e| e.path()).collect())
            .unwrap_or_default();
        files.sort();
        for f in files {
            if f.extension().map(|e| e != "json").unwrap_or(true) {
                continue;
            }
            let txt = std::fs::read_to_string(&f).unwrap_or_default();
            let rf: ReplayFile = match serde_json::from_str(&txt) {
                Ok(r) => r,
                Err(e) => {
                    harness_errors.push(format!("{}: {}", f.display(), e));
                    continue;
                }
            };
            let case: P::Case = match serde_json::from_value(rf.case.clone()) {
                Ok(c) => c,
                Err(e) => {
                    harness_errors.push(format!("{}: {}", f.display(), e));
                    continue;
                }
            };
            cx.class("regression-replayed");
            cx.stats.evaluations += 1;
            if let Verdict::Fail(fl) = p.check(&case, &mut cx) {
                if let Some((_, kid)) = known_sigs.iter().find(|(s, _)| sig_matches(s, &fl.signature)) {
                    *total.known_hits.entry(kid.clone()).or_insert(0) += 1;
                } else {
                    let stem = f.file_stem().unwrap().to_string_lossy().into_owned();
                    violations.push((rf.case, fl, format!("regression-{}", stem)));
                }
            }
        }
        cx.replay = false;
        for f in p.prologue(&mut cx) {
            if let Some((_, kid)) = known_sigs.iter().find(|(s, _)| sig_matches(s, &f.signature)) {
                *total.known_hits.entry(kid.clone()).or_insert(0) += 1;
            } else {
                violations.push((f.details.clone(), f, "prologue".to_string()));
            }
        }
        total.merge(cx.stats.clone());
    }

    // ---- phase 1: enumerated + generated search, sharded ----
    let enumerated = p.enumerate(tier);
    let has_enum = !enumerated.is_empty();
    let has_strategy = p.strategy(tier).is_some();
    let results: Vec<ShardResult> = std::thread::scope(|sc| {
        let mut hs = vec![];
        for shard in 0..SHARDS {
            let my_enum: Vec<P::Case> = enumerated
                .iter()
                .enumerate()
                .filter(|(i, _)| i % SHARDS == shard)
                .map(|(_, c)| c.clone())
                .collect();
            let known_sigs = known_sigs.clone();
            hs.push(
                std::thread::Builder::new()
                    .stack_size(64 * 1024 * 1024)
                    .spawn_scoped(sc, move || {
                        // VP_CASES_CAP (development aid): bound the generated part, e.g. to exercise
                        // the enumerated part of a thorough tier alone; never set by ./check
                        let cap: Option<u32> = std::env::var("VP_CASES_CAP").ok().and_then(|v| v.parse().ok());
                        let strat = p.strategy(tier).map(|(s, n)| (s, cap.map_or(n, |c| n.min(c))));
                        run_shard(p, tier, seed, shard, my_enum, strat, &known_sigs)
                    })
                    .expect("spawn shard"),
            );
        }
        hs.into_iter()
            .map(|h| {
                h.join().unwrap_or_else(|_| ShardResult {
                    stats: Stats::default(),
                    violation: None,
                    harness_error: Some("shard thread panicked (harness bug)".into()),
                })
            })
            .collect()
    });
    for (i, r) in results.into_iter().enumerate() {
        total.merge(r.stats);
        if let Some((c, f)) = r.violation {
            violations.push((c, f, format!("seed{}-shard{}", seed, i)));
        }
        if let Some(e) = r.harness_error {
            harness_errors.push(format!("shard {}: {}", i, e));
        }
    }

    // ---- report ----
    let mut samples = total.nt_samples.clone();
    samples.extend(total.samples.clone());
    samples.truncate(8);
    let mut coverage = json!({
        "evaluations": total.evaluations,
        "distinct_nontrivial": total.nontrivial.len(),
        "rule": p.rule(),
        "samples": samples,
        "compilations": total.compilations,
        "classes": total.classes,
        "excluded_known": total.excluded,
        "known_findings_hit": total.known_hits,
        "inconclusive": total.inconclusive,
        "discarded": total.discards,
        "exhaustive": has_enum && !has_strategy,
        "shards": SHARDS,
    });
    if let (Value::Object(m), Value::Object(extra)) = (&mut coverage, p.extra_evidence(&total)) {
        for (k, v) in extra {
            m.insert(k, v);
        }
    }
    let mut assumptions = p.assumptions();
    assumptions.push("the harness links /repo/crates/compiler from the working tree with release semantics (no debug assertions, unwinding panics); compilations run in a sandboxed worker process with a watchdog".into());
    let ev = json!({
        "property_id": id,
        "tier": tier.name(),
        "seed": seed as i64,
        "level": "exploration",
        "coverage": coverage,
        "assumptions": assumptions,
        "wall_s": t0.elapsed().as_secs_f64(),
        "violations": violations.len(),
    });
    let evdir = verif_root().join("evidence");
    std::fs::create_dir_all(&evdir).ok();
    std::fs::write(
        evdir.join(format!("{}.json", id)),
        serde_json::to_string_pretty(&ev).unwrap(),
    )
    .ok();

    println!(
        "{} {}: {} evaluations, {} distinct non-trivial, {} compilations, {} inconclusive, {:.1}s",
        id,
        tier.name(),
        total.evaluations,
        total.nontrivial.len(),
        total.compilations,
        total.inconclusive,
        t0.elapsed().as_secs_f64()
    );
    if !total.triage.is_empty() {
        let p = verif_root().join("replays").join(format!("{}-triage.json", id));
        std::fs::create_dir_all(p.parent().unwrap()).ok();
        std::fs::write(&p, serde_json::to_string_pretty(&total.triage).unwrap()).ok();
        println!("TRIAGE MODE: {} distinct failure signatures -> {}", total.triage.len(), p.display());
        for (k, (n, _)) in &total.triage {
            println!("  {:6}  {}", n, k);
        }
    }
    for (k, n) in &total.known_hits {
        println!("  known finding {} matched {} time(s)", k, n);
    }
    if !violations.is_empty() {
        for (case, f, name) in &violations {
            let path = write_replay(id, name, case, f);
            println!("  failure: [{}] {}", f.signature, one_line(&f.what));
            println!("VIOLATION property={} replay={}", id, path.display());
        }
        return 1;
    }
    if !harness_errors.is_empty() {
        for e in &harness_errors {
            eprintln!("INCONCLUSIVE: {}", e);
        }
        return 2;
    }
    0
}

fn run_shard<P: Prop>(
    p: &P,
    tier: Tier,
    seed: u64,
    shard: usize,
    my_enum: Vec<P::Case>,
    strat: Option<(BoxedStrategy<P::Case>, u32)>,
    known_sigs: &[(String, String)],
) -> ShardResult {
    let cx = RefCell::new(Ctx::new(tier, seed, shard));
    let mut violation: Option<(Value, Failure)> = None;
    let mut harness_error = None;

    let handle = |case: &P::Case, cx: &mut Ctx| -> Result<(), Failure> {
        if cx.counting {
            cx.stats.evaluations += 1;
        }
        match p.check(case, cx) {
            Verdict::Pass => Ok(()),
            Verdict::Discard => {
                if cx.counting {
                    cx.stats.discards += 1;
                }
                Ok(())
            }
            Verdict::Fail(f) => {
                if let Some((_, kid)) = known_sigs.iter().find(|(s, _)| sig_matches(s, &f.signature)) {
                    if cx.counting {
                        *cx.stats.known_hits.entry(kid.clone()).or_insert(0) += 1;
                    }
                    Ok(())
                } else if std::env::var("VP_TRIAGE").is_ok() {
                    let ex = json!({"case": serde_json::to_value(case).unwrap_or(Value::Null), "what": f.what, "details": f.details});
                    let e = cx
                        .stats
                        .triage
                        .entry(f.signature.clone())
                        .or_insert((0, json!({"case": ex["case"], "what": ex["what"], "details": ex["details"], "more": []})));
                    e.0 += 1;
                    if e.0 > 1 && e.0 <= 6 {
                        if let Some(a) = e.1.get_mut("more").and_then(|m| m.as_array_mut()) {
                            a.push(ex);
                        }
                    }
                    Ok(())
                } else {
                    Err(f)
                }
            }
        }
    };

    for case in &my_enum {
        let mut c = cx.borrow_mut();
        if let Err(f) = handle(case, &mut c) {
            violation = Some((serde_json::to_value(case).unwrap_or(Value::Null), f));
            break;
        }
    }

    if violation.is_none() {
        if let Some((strategy, total_cases)) = strat {
            let cases = (total_cases as usize + SHARDS - 1) / SHARDS;
            let config = Config {
                cases: cases as u32,
                failure_persistence: None,
                max_shrink_iters: 3000,
                // minimality only, never the verdict: stop shrinking after 3 minutes per shard
                max_shrink_time: 180_000,
                max_global_rejects: 1_000_000,
                max_local_rejects: 1_000_000,
                ..Config::default()
            };
            let rng = TestRng::from_seed(RngAlgorithm::ChaCha, &derive_seed(seed, p.id(), shard));
            let mut runner = TestRunner::new_with_rng(config, rng);
            let r = runner.run(&strategy, |case| {
                let mut c = cx.borrow_mut();
                match handle(&case, &mut c) {
                    Ok(()) => Ok(()),
                    Err(f) => {
                        // stop counting: the closure is re-run while shrinking
                        c.counting = false;
                        Err(TestCaseError::fail(f.signature))
                    }
                }
            });
            match r {
                Ok(()) => {}
                Err(TestError::Fail(_, minimal)) => {
                    let mut c = cx.borrow_mut();
                    c.counting = false;
                    let case_v = serde_json::to_value(&minimal).unwrap_or(Value::Null);
                    match p.check(&minimal, &mut c) {
                        Verdict::Fail(f) => violation = Some((case_v, f)),
                        _ => {
                            harness_error = Some(format!(
                                "a failure did not reproduce on its minimal case: {}",
                                one_line(&case_v.to_string())
                            ))
                        }
                    }
                }
                Err(TestError::Abort(why)) => {
                    harness_error = Some(format!("proptest aborted: {}", why));
                }
            }
        }
    }
    let stats = cx.into_inner().stats;
    ShardResult {
        stats,
        violation,
        harness_error,
    }
}

/// `vp replay <file>`: re-run exactly one saved case through the property's oracle, strictly.
pub fn replay<P: Prop>(p: &P, rf: &ReplayFile, path: &str) -> i32 {
    let case: P::Case = match serde_json::from_value(rf.case.clone()) {
        Ok(c) => c,
        Err(e) => {
            eprintln!("cannot decode case: {}", e);
            return 2;
        }
    };
    let mut cx = Ctx::new(Tier::Quick, 0, 0);
    cx.replay = true;
    match p.check(&case, &mut cx) {
        Verdict::Fail(f) => {
            println!("failure: [{}] {}", f.signature, f.what);
            println!("{}", serde_json::to_string_pretty(&f.details).unwrap_or_default());
            // campaign post-processing (tools/fuzz_c01.sh): an artifact whose failure is a listed
            // known finding is reported as such, exactly as the generated search does
            if std::env::var("VP_REPLAY_KNOWN").is_ok() {
                if let Some(k) = load_known(p.id()).iter().find(|k| k.status == "known" && sig_matches(&k.signature, &f.signature)) {
                    println!("KNOWN-FINDING: property={} {} ({})", p.id(), k.id, f.signature);
                    return 0;
                }
            }
            println!("VIOLATION property={} replay={}", p.id(), path);
            1
        }
        Verdict::Pass => {
            println!("replay passes: property={} holds on this case", p.id());
            0
        }
        Verdict::Discard => {
            println!("replay: case is outside the property's domain (discarded)");
            0
        }
    }
}

/// Sample a few values from a strategy (used by `vp gen <id>` for eyeballing generators).
pub fn sample_strategy<T: std::fmt::Debug>(s: &BoxedStrategy<T>, n: usize, seed: u64) -> Vec<T> {
    let rng = TestRng::from_seed(RngAlgorithm::ChaCha, &derive_seed(seed, "sample", 0));
    let mut runner = TestRunner::new_with_rng(Config::default(), rng);
    (0..n)
        .filter_map(|_| s.new_tree(&mut runner).ok().map(|t| t.current()))
        .collect()
}

/// Monotone index mapping for shrink-friendly choices: u16 -> 0..len
pub fn idx(i: u16, len: usize) -> usize {
    if len == 0 {
        0
    } else {
        ((i as usize) * len) >> 16
    }
}

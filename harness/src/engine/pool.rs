//! Driver side of the sandbox: spawns `vp --worker`, sends jobs, enforces the watchdog, restarts
//! the worker after a crash or a timeout.

use super::proto::*;
use std::io::{BufRead, BufReader, Read, Seek, SeekFrom, Write};
use std::os::unix::net::{UnixListener, UnixStream};
use std::os::unix::process::ExitStatusExt;
use std::path::PathBuf;
use std::process::{Child, Command, Stdio};
use std::sync::atomic::{AtomicUsize, Ordering};
use std::time::Duration;

static COUNTER: AtomicUsize = AtomicUsize::new(0);

pub fn scratch_root() -> PathBuf {
    let exe = std::env::current_exe().expect("exe");
    // <harness>/target/release/vp -> <harness>/target/scratch
    let root = exe
        .parent()
        .and_then(|p| p.parent())
        .map(|p| p.join("scratch"))
        .unwrap_or_else(|| PathBuf::from("/verif/harness/target/scratch"));
    std::fs::create_dir_all(&root).ok();
    root
}

pub struct Worker {
    child: Option<Child>,
    stream: Option<UnixStream>,
    reader: Option<BufReader<UnixStream>>,
    dir: PathBuf,
    out_path: PathBuf,
    err_path: PathBuf,
    out_seen: u64,
    err_seen: u64,
    pub restarts: usize,
    pub default_timeout: Duration,
}

impl Worker {
    pub fn new() -> Worker {
        let n = COUNTER.fetch_add(1, Ordering::SeqCst);
        let dir = scratch_root().join(format!("w{}_{}", std::process::id(), n));
        std::fs::create_dir_all(&dir).expect("scratch dir");
        let mut w = Worker {
            child: None,
            stream: None,
            reader: None,
            out_path: dir.join("stdout"),
            err_path: dir.join("stderr"),
            dir,
            out_seen: 0,
            err_seen: 0,
            restarts: 0,
            default_timeout: Duration::from_secs(10),
        };
        w.start();
        w
    }

    pub fn scratch_dir(&self) -> &PathBuf {
        &self.dir
    }

    fn start(&mut self) {
        let sock = self.dir.join("sock");
        let _ = std::fs::remove_file(&sock);
        let listener = UnixListener::bind(&sock).expect("bind");
        let out = std::fs::File::create(&self.out_path).expect("stdout file");
        let err = std::fs::File::create(&self.err_path).expect("stderr file");
        self.out_seen = 0;
        self.err_seen = 0;
        let child = Command::new(std::env::current_exe().expect("exe"))
            .arg("--worker")
            .arg(&sock)
            .current_dir(&self.dir)
            .stdin(Stdio::null())
            .stdout(out)
            .stderr(err)
            .spawn()
            .expect("spawn worker");
        let (stream, _) = listener.accept().expect("accept");
        let _ = std::fs::remove_file(&sock);
        self.reader = Some(BufReader::new(stream.try_clone().expect("clone")));
        self.stream = Some(stream);
        self.child = Some(child);
    }

    fn kill(&mut self) -> Option<i32> {
        let mut sig = None;
        if let Some(mut c) = self.child.take() {
            let _ = c.kill();
            if let Ok(st) = c.wait() {
                sig = st.signal();
            }
        }
        self.stream = None;
        self.reader = None;
        sig
    }

    fn reap(&mut self) -> i32 {
        let mut sig = -1;
        if let Some(mut c) = self.child.take() {
            // the socket closed: the process is dead or dying
            for _ in 0..200 {
                match c.try_wait() {
                    Ok(Some(st)) => {
                        sig = st.signal().unwrap_or(-(st.code().unwrap_or(1).abs()) - 1000);
                        break;
                    }
                    Ok(None) => std::thread::sleep(Duration::from_millis(10)),
                    Err(_) => break,
                }
            }
            let _ = c.kill();
            let _ = c.wait();
        }
        self.stream = None;
        self.reader = None;
        sig
    }

    fn read_new(path: &PathBuf, seen: &mut u64) -> String {
        let mut s = String::new();
        if let Ok(mut f) = std::fs::File::open(path) {
            if f.seek(SeekFrom::Start(*seen)).is_ok() {
                let mut buf = vec![];
                let _ = f.read_to_end(&mut buf);
                *seen += buf.len() as u64;
                s = String::from_utf8_lossy(&buf).into_owned();
            }
        }
        s
    }

    /// Whatever the worker process wrote to its own stdout / stderr since the last call.
    pub fn take_stdio(&mut self) -> (String, String) {
        (
            Self::read_new(&self.out_path, &mut self.out_seen),
            Self::read_new(&self.err_path, &mut self.err_seen),
        )
    }

    pub fn run(&mut self, job: &Job) -> Vec<Res> {
        let t = self.default_timeout;
        self.run_timeout(job, t)
    }

    /// `timeout` applies to each step separately.
    pub fn run_timeout(&mut self, job: &Job, timeout: Duration) -> Vec<Res> {
        if self.child.is_none() {
            self.start();
        }
        let mut txt = serde_json::to_string(job).expect("ser job");
        txt.push('\n');
        let n = job.steps.len();
        let mut out: Vec<Res> = Vec::with_capacity(n);
        let send_ok = {
            let s = self.stream.as_mut().unwrap();
            s.write_all(txt.as_bytes()).and_then(|_| s.flush()).is_ok()
        };
        if !send_ok {
            let sig = self.reap();
            let (_, e) = self.take_stdio();
            self.restarts += 1;
            out.push(Res::abnormal(Outcome::Crash {
                signal: sig,
                stderr: tail(&e),
            }));
            while out.len() < n {
                out.push(Res::abnormal(Outcome::NotRun));
            }
            return out;
        }
        self.stream
            .as_ref()
            .unwrap()
            .set_read_timeout(Some(timeout))
            .ok();
        let mut line = String::new();
        while out.len() < n {
            line.clear();
            let r = self.reader.as_mut().unwrap().read_line(&mut line);
            match r {
                Ok(0) => {
                    let sig = self.reap();
                    let (_, e) = self.take_stdio();
                    self.restarts += 1;
                    out.push(Res::abnormal(Outcome::Crash {
                        signal: sig,
                        stderr: tail(&e),
                    }));
                    break;
                }
                Ok(_) if line.ends_with('\n') => match serde_json::from_str::<Res>(&line) {
                    Ok(res) => out.push(res),
                    Err(e) => {
                        self.kill();
                        self.restarts += 1;
                        out.push(Res::abnormal(Outcome::Crash {
                            signal: -2,
                            stderr: format!("protocol error: {}", e),
                        }));
                        break;
                    }
                },
                Ok(_) | Err(_) => {
                    // timeout (WouldBlock/TimedOut) or partial line
                    self.kill();
                    self.restarts += 1;
                    out.push(Res::abnormal(Outcome::Timeout));
                    break;
                }
            }
        }
        while out.len() < n {
            out.push(Res::abnormal(Outcome::NotRun));
        }
        out
    }

    pub fn one(&mut self, s: &Single) -> Res {
        self.run(&Job::one(s.clone())).pop().unwrap()
    }

    pub fn one_timeout(&mut self, s: &Single, t: Duration) -> Res {
        self.run_timeout(&Job::one(s.clone()), t).pop().unwrap()
    }
}

fn tail(s: &str) -> String {
    let v: Vec<char> = s.chars().collect();
    let start = v.len().saturating_sub(400);
    v[start..].iter().collect()
}

impl Drop for Worker {
    fn drop(&mut self) {
        self.kill();
        let _ = std::fs::remove_dir_all(&self.dir);
    }
}

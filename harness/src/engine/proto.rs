//! Wire protocol between the driver and the sandboxed compile worker.
//! One JSON document per line in both directions.

use serde::{Deserialize, Serialize};

#[derive(Serialize, Deserialize, Clone, Copy, Debug, PartialEq, Eq, Hash, PartialOrd, Ord)]
pub enum Syntax {
    Scss,
    Sass,
    Css,
}

impl Syntax {
    pub const ALL: [Syntax; 3] = [Syntax::Scss, Syntax::Sass, Syntax::Css];
    pub fn ext(self) -> &'static str {
        match self {
            Syntax::Scss => "scss",
            Syntax::Sass => "sass",
            Syntax::Css => "css",
        }
    }
}

#[derive(Serialize, Deserialize, Clone, Copy, Debug, PartialEq, Eq, Hash, PartialOrd, Ord)]
pub enum Style {
    Expanded,
    Compressed,
}

/// File contents; `Hex` is used when the bytes are not valid UTF-8.
#[derive(Serialize, Deserialize, Clone, Debug, PartialEq, Eq, Hash)]
pub enum Bytes {
    Text(String),
    Hex(String),
}

impl Bytes {
    pub fn from_vec(v: Vec<u8>) -> Bytes {
        match String::from_utf8(v) {
            Ok(s) => Bytes::Text(s),
            Err(e) => {
                let mut h = String::new();
                for b in e.as_bytes() {
                    h.push_str(&format!("{:02x}", b));
                }
                Bytes::Hex(h)
            }
        }
    }
    pub fn to_vec(&self) -> Vec<u8> {
        match self {
            Bytes::Text(s) => s.as_bytes().to_vec(),
            Bytes::Hex(h) => (0..h.len() / 2)
                .map(|i| u8::from_str_radix(&h[2 * i..2 * i + 2], 16).unwrap_or(0))
                .collect(),
        }
    }
    pub fn as_text(&self) -> Option<&str> {
        match self {
            Bytes::Text(s) => Some(s),
            Bytes::Hex(_) => None,
        }
    }
}

#[derive(Serialize, Deserialize, Clone, Debug, PartialEq, Eq, Hash)]
pub enum Entry {
    /// `grass::from_string(text, opts)`
    Text(String),
    /// `grass::from_path(path, opts)`; the file must be in `files` (or on disk for `FsKind::Std`)
    Path(String),
}

#[derive(Serialize, Deserialize, Clone, Copy, Debug, PartialEq, Eq, Hash)]
pub enum FsKind {
    /// in-memory file system built from `Single::files`, records every call
    Mem,
    /// grass::NullFs
    Null,
    /// grass::StdFs
    Std,
}

#[derive(Serialize, Deserialize, Clone, Copy, Debug, PartialEq, Eq, Hash)]
pub enum Mode {
    Compile,
    /// only `grass::parse_stylesheet`
    ParseOnly,
}

#[derive(Serialize, Deserialize, Clone, Copy, Debug, PartialEq, Eq, Hash)]
pub enum LoggerKind {
    /// collecting logger, messages are returned in `Res::logs`
    Collect,
    /// grass default (StdLogger, writes to stderr)
    Std,
}

#[derive(Serialize, Deserialize, Clone, Debug, PartialEq, Eq, Hash)]
pub struct Single {
    pub entry: Entry,
    /// None = inferred from the entry path extension (from_string: scss)
    pub syntax: Option<Syntax>,
    pub style: Style,
    pub quiet: bool,
    pub unicode: bool,
    pub charset: bool,
    pub load_paths: Vec<String>,
    pub files: Vec<(String, Bytes)>,
    pub fs: FsKind,
    pub mode: Mode,
    pub logger: LoggerKind,
}

impl Single {
    pub fn scss(text: impl Into<String>) -> Single {
        Single {
            entry: Entry::Text(text.into()),
            syntax: None,
            style: Style::Expanded,
            quiet: false,
            unicode: true,
            charset: true,
            load_paths: vec![],
            files: vec![],
            fs: FsKind::Mem,
            mode: Mode::Compile,
            logger: LoggerKind::Collect,
        }
    }
    pub fn with_syntax(mut self, s: Syntax) -> Single {
        self.syntax = Some(s);
        self
    }
    pub fn with_style(mut self, s: Style) -> Single {
        self.style = s;
        self
    }
    pub fn compressed(mut self) -> Single {
        self.style = Style::Compressed;
        self
    }
    pub fn with_file(mut self, name: impl Into<String>, content: impl Into<String>) -> Single {
        self.files.push((name.into(), Bytes::Text(content.into())));
        self
    }
    pub fn entry_text(&self) -> Option<String> {
        match &self.entry {
            Entry::Text(t) => Some(t.clone()),
            Entry::Path(p) => self
                .files
                .iter()
                .find(|(n, _)| n == p)
                .and_then(|(_, b)| b.as_text().map(|s| s.to_string())),
        }
    }
}

/// What the worker is asked to do: a sequence of compilations on ONE fresh thread (so that
/// thread-local state such as the interner is shared between the steps and with nothing else),
/// optionally while `storm` threads compile other inputs concurrently.
#[derive(Serialize, Deserialize, Clone, Debug, PartialEq, Eq, Hash)]
pub struct Job {
    pub steps: Vec<Single>,
    /// concurrent noise: each inner vec is compiled in a loop by its own thread while `steps` run
    pub storm: Vec<Vec<Single>>,
}

impl Job {
    pub fn one(s: Single) -> Job {
        Job {
            steps: vec![s],
            storm: vec![],
        }
    }
}

#[derive(Serialize, Deserialize, Clone, Debug, PartialEq, Eq, Hash)]
pub struct Pos {
    pub line: usize,
    pub col: usize,
}

#[derive(Serialize, Deserialize, Clone, Debug, PartialEq, Eq, Hash)]
pub struct ErrInfo {
    /// `Error::to_string()`
    pub display: String,
    /// "parse" | "io" | "utf8"
    pub kind: String,
    pub message: String,
    pub file: String,
    pub begin: Pos,
    pub end: Pos,
}

#[derive(Serialize, Deserialize, Clone, Debug, PartialEq, Eq, Hash)]
pub struct LogMsg {
    /// "debug" | "warn"
    pub kind: String,
    pub file: String,
    pub line: usize,
    pub col: usize,
    pub message: String,
}

#[derive(Serialize, Deserialize, Clone, Debug, PartialEq, Eq, Hash)]
pub struct FsCall {
    /// "is_file" | "is_dir" | "read" | "canonicalize"
    pub op: String,
    pub path: String,
    pub hit: bool,
}

#[derive(Serialize, Deserialize, Clone, Debug, PartialEq, Eq, Hash)]
pub enum Outcome {
    Css(String),
    Error(ErrInfo),
    /// a Rust panic caught in the worker: source location and message
    Panic { at: String, msg: String },
    /// the worker process died (signal number, or -1) – e.g. stack overflow abort
    Crash { signal: i32, stderr: String },
    /// the watchdog expired
    Timeout,
    /// an earlier step of the same job killed the worker
    NotRun,
    /// ParseOnly succeeded
    Parsed,
}

impl Outcome {
    pub fn css(&self) -> Option<&str> {
        match self {
            Outcome::Css(s) => Some(s),
            _ => None,
        }
    }
    pub fn is_ok(&self) -> bool {
        matches!(self, Outcome::Css(_) | Outcome::Parsed)
    }
    pub fn is_err(&self) -> bool {
        matches!(self, Outcome::Error(_))
    }
    /// crashed, panicked, or hung
    pub fn is_abnormal(&self) -> bool {
        matches!(
            self,
            Outcome::Panic { .. } | Outcome::Crash { .. } | Outcome::Timeout | Outcome::NotRun
        )
    }
    /// css text or rendered error; abnormal outcomes get a tagged description
    pub fn text(&self) -> String {
        match self {
            Outcome::Css(s) => format!("OK\n{}", s),
            Outcome::Error(e) => format!("ERR\n{}", e.display),
            Outcome::Panic { at, msg } => format!("PANIC {} {}", at, msg),
            Outcome::Crash { signal, .. } => format!("CRASH signal {}", signal),
            Outcome::Timeout => "TIMEOUT".into(),
            Outcome::NotRun => "NOTRUN".into(),
            Outcome::Parsed => "PARSED".into(),
        }
    }
    pub fn short(&self) -> String {
        let t = self.text();
        let mut s: String = t.chars().take(300).collect();
        if t.chars().count() > 300 {
            s.push('…');
        }
        s
    }
}

#[derive(Serialize, Deserialize, Clone, Debug, PartialEq, Eq, Hash)]
pub struct Res {
    pub outcome: Outcome,
    pub logs: Vec<LogMsg>,
    pub fs_calls: Vec<FsCall>,
    pub micros: u64,
    /// the returned CSS `String` did not hold valid UTF-8 (it is transported lossily)
    #[serde(default)]
    pub invalid_utf8: bool,
}

impl Res {
    pub fn abnormal(o: Outcome) -> Res {
        Res {
            outcome: o,
            logs: vec![],
            fs_calls: vec![],
            micros: 0,
            invalid_utf8: false,
        }
    }
}

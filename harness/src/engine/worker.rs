//! The sandboxed side: `vp --worker <socket>` connects to the driver and compiles what it is sent.
//! Each job runs on one fresh thread with a main-thread-sized stack; panics are caught and
//! reported with their source location; a stack overflow or abort kills this process, which the
//! driver observes as a closed socket.

use super::proto::*;
use grass_compiler as grass;
use std::cell::RefCell;
use std::collections::BTreeMap;
use std::io::{BufRead, BufReader, Write};
use std::os::unix::net::UnixStream;
use std::panic;
use std::path::{Component, Path, PathBuf};
use std::sync::atomic::{AtomicBool, Ordering};
use std::sync::{Arc, Mutex};
use std::time::Instant;

thread_local! {
    static LAST_PANIC: RefCell<Option<(String, String)>> = RefCell::new(None);
}

pub fn normalize(p: &Path) -> String {
    let mut out: Vec<String> = vec![];
    let mut abs = false;
    for c in p.components() {
        match c {
            Component::RootDir => abs = true,
            Component::CurDir => {}
            Component::ParentDir => {
                if out.last().map(|s| s != "..").unwrap_or(false) {
                    out.pop();
                } else if !abs {
                    out.push("..".into());
                }
            }
            Component::Normal(s) => out.push(s.to_string_lossy().into_owned()),
            Component::Prefix(_) => {}
        }
    }
    let j = out.join("/");
    if abs {
        format!("/{}", j)
    } else {
        j
    }
}

#[derive(Debug)]
pub struct MemFs {
    files: BTreeMap<String, Vec<u8>>,
    calls: Mutex<Vec<FsCall>>,
}

impl MemFs {
    pub fn new(files: &[(String, Bytes)]) -> MemFs {
        let mut m = BTreeMap::new();
        for (n, b) in files {
            m.insert(normalize(Path::new(n)), b.to_vec());
        }
        MemFs {
            files: m,
            calls: Mutex::new(vec![]),
        }
    }
    fn rec(&self, op: &str, path: &Path, hit: bool) {
        self.calls.lock().unwrap().push(FsCall {
            op: op.into(),
            path: path.to_string_lossy().into_owned(),
            hit,
        });
    }
    pub fn take_calls(&self) -> Vec<FsCall> {
        std::mem::take(&mut *self.calls.lock().unwrap())
    }
}

impl grass::Fs for MemFs {
    fn is_dir(&self, path: &Path) -> bool {
        let n = normalize(path);
        let hit = if n.is_empty() {
            true
        } else {
            let pre = format!("{}/", n);
            self.files.keys().any(|k| k.starts_with(&pre))
        };
        self.rec("is_dir", path, hit);
        hit
    }
    fn is_file(&self, path: &Path) -> bool {
        let hit = self.files.contains_key(&normalize(path));
        self.rec("is_file", path, hit);
        hit
    }
    fn read(&self, path: &Path) -> std::io::Result<Vec<u8>> {
        let r = self.files.get(&normalize(path)).cloned();
        self.rec("read", path, r.is_some());
        r.ok_or_else(|| std::io::Error::new(std::io::ErrorKind::NotFound, "no such file (memfs)"))
    }
    fn canonicalize(&self, path: &Path) -> std::io::Result<PathBuf> {
        self.rec("canonicalize", path, true);
        Ok(PathBuf::from(normalize(path)))
    }
}

#[derive(Debug, Default)]
pub struct CollectLogger {
    msgs: Mutex<Vec<LogMsg>>,
}

impl grass::Logger for CollectLogger {
    fn debug(&self, location: grass::codemap::SpanLoc, message: &str) {
        self.msgs.lock().unwrap().push(LogMsg {
            kind: "debug".into(),
            file: location.file.name().to_string(),
            line: location.begin.line,
            col: location.begin.column,
            message: message.to_string(),
        });
    }
    fn warn(&self, location: grass::codemap::SpanLoc, message: &str) {
        self.msgs.lock().unwrap().push(LogMsg {
            kind: "warn".into(),
            file: location.file.name().to_string(),
            line: location.begin.line,
            col: location.begin.column,
            message: message.to_string(),
        });
    }
}

fn err_info(e: &grass::Error) -> ErrInfo {
    let display = e.to_string();
    match e.clone().kind() {
        grass::ErrorKind::ParseError { message, loc, .. } => ErrInfo {
            display,
            kind: "parse".into(),
            message,
            file: loc.file.name().to_string(),
            begin: Pos {
                line: loc.begin.line,
                col: loc.begin.column,
            },
            end: Pos {
                line: loc.end.line,
                col: loc.end.column,
            },
        },
        grass::ErrorKind::IoError(io) => ErrInfo {
            display,
            kind: "io".into(),
            message: io.to_string(),
            file: String::new(),
            begin: Pos { line: 0, col: 0 },
            end: Pos { line: 0, col: 0 },
        },
        grass::ErrorKind::FromUtf8Error(s) => ErrInfo {
            display,
            kind: "utf8".into(),
            message: s,
            file: String::new(),
            begin: Pos { line: 0, col: 0 },
            end: Pos { line: 0, col: 0 },
        },
        _ => ErrInfo {
            display,
            kind: "other".into(),
            message: String::new(),
            file: String::new(),
            begin: Pos { line: 0, col: 0 },
            end: Pos { line: 0, col: 0 },
        },
    }
}

/// Run one compilation in the current thread. Never unwinds.
pub fn run_single(s: &Single) -> Res {
    let t0 = Instant::now();
    let memfs = MemFs::new(&s.files);
    let logger = CollectLogger::default();
    let r = panic::catch_unwind(panic::AssertUnwindSafe(|| {
        let mut o = grass::Options::default()
            .style(match s.style {
                Style::Expanded => grass::OutputStyle::Expanded,
                Style::Compressed => grass::OutputStyle::Compressed,
            })
            .quiet(s.quiet)
            .unicode_error_messages(s.unicode)
            .allows_charset(s.charset);
        for lp in &s.load_paths {
            o = o.load_path(lp);
        }
        if let Some(sy) = s.syntax {
            o = o.input_syntax(match sy {
                Syntax::Scss => grass::InputSyntax::Scss,
                Syntax::Sass => grass::InputSyntax::Sass,
                Syntax::Css => grass::InputSyntax::Css,
            });
        }
        o = match s.fs {
            FsKind::Mem => o.fs(&memfs),
            FsKind::Null => o.fs(&grass::NullFs),
            FsKind::Std => o,
        };
        o = match s.logger {
            LoggerKind::Collect => o.logger(&logger),
            LoggerKind::Std => o,
        };
        match s.mode {
            Mode::Compile => {
                let r = match &s.entry {
                    Entry::Text(t) => grass::from_string(t.clone(), &o),
                    Entry::Path(p) => grass::from_path(p, &o),
                };
                match r {
                    Ok(css) => Outcome::Css(css),
                    Err(e) => Outcome::Error(err_info(&e)),
                }
            }
            Mode::ParseOnly => {
                let (text, name) = match &s.entry {
                    Entry::Text(t) => (t.clone(), "stdin".to_string()),
                    Entry::Path(p) => (
                        s.files
                            .iter()
                            .find(|(n, _)| n == p)
                            .map(|(_, b)| String::from_utf8_lossy(&b.to_vec()).into_owned())
                            .unwrap_or_default(),
                        p.clone(),
                    ),
                };
                match grass::parse_stylesheet(text, name, &o) {
                    Ok(_) => Outcome::Parsed,
                    Err(e) => Outcome::Error(err_info(&e)),
                }
            }
        }
    }));
    let outcome = match r {
        Ok(o) => o,
        Err(payload) => {
            let (at, mut msg) = LAST_PANIC
                .with(|p| p.borrow_mut().take())
                .unwrap_or_else(|| ("?".into(), String::new()));
            if msg.is_empty() {
                if let Some(s) = payload.downcast_ref::<&str>() {
                    msg = s.to_string();
                } else if let Some(s) = payload.downcast_ref::<String>() {
                    msg = s.clone();
                }
            }
            Outcome::Panic { at, msg }
        }
    };
    let logs = std::mem::take(&mut *logger.msgs.lock().unwrap());
    // the serializer builds its String with from_utf8_unchecked: validate before transport
    let mut invalid_utf8 = false;
    let outcome = match outcome {
        Outcome::Css(css) => {
            if std::str::from_utf8(css.as_bytes()).is_err() {
                invalid_utf8 = true;
                Outcome::Css(String::from_utf8_lossy(css.as_bytes()).into_owned())
            } else {
                Outcome::Css(css)
            }
        }
        o => o,
    };
    Res {
        outcome,
        invalid_utf8,
        logs,
        fs_calls: memfs.take_calls(),
        micros: t0.elapsed().as_micros() as u64,
    }
}

pub fn install_panic_hook() {
    panic::set_hook(Box::new(|info| {
        let at = info
            .location()
            .map(|l| format!("{}:{}", l.file(), l.line()))
            .unwrap_or_else(|| "?".into());
        let msg = if let Some(s) = info.payload().downcast_ref::<&str>() {
            s.to_string()
        } else if let Some(s) = info.payload().downcast_ref::<String>() {
            s.clone()
        } else {
            String::new()
        };
        LAST_PANIC.with(|p| *p.borrow_mut() = Some((at, msg)));
    }));
}

const STACK: usize = 8 * 1024 * 1024;

pub fn worker_main(socket: &str) -> ! {
    install_panic_hook();
    let stream = UnixStream::connect(socket).expect("worker: connect");
    let mut reader = BufReader::new(stream.try_clone().expect("clone"));
    let writer = Arc::new(Mutex::new(stream));
    let mut line = String::new();
    loop {
        line.clear();
        match reader.read_line(&mut line) {
            Ok(0) | Err(_) => std::process::exit(0),
            Ok(_) => {}
        }
        let job: Job = match serde_json::from_str(&line) {
            Ok(j) => j,
            Err(e) => {
                eprintln!("worker: bad job: {}", e);
                std::process::exit(3);
            }
        };
        let stop = Arc::new(AtomicBool::new(false));
        // everybody starts together so that the observed steps overlap with the noise
        let barrier = Arc::new(std::sync::Barrier::new(job.storm.len() + 1));
        let mut storm_handles = vec![];
        for seq in job.storm.iter().cloned() {
            let stop = stop.clone();
            let barrier = barrier.clone();
            storm_handles.push(
                std::thread::Builder::new()
                    .stack_size(STACK)
                    .spawn(move || {
                        barrier.wait();
                        let mut n = 0usize;
                        loop {
                            for s in &seq {
                                let _ = run_single(s);
                                n += 1;
                            }
                            if seq.is_empty() || stop.load(Ordering::Relaxed) {
                                break;
                            }
                        }
                        n
                    })
                    .expect("spawn storm"),
            );
        }
        let w = writer.clone();
        let steps = job.steps;
        let h = std::thread::Builder::new()
            .stack_size(STACK)
            .spawn(move || {
                barrier.wait();
                for s in &steps {
                    let r = run_single(s);
                    let mut txt = serde_json::to_string(&r).expect("ser");
                    txt.push('\n');
                    let mut g = w.lock().unwrap();
                    let _ = g.write_all(txt.as_bytes());
                    let _ = g.flush();
                }
            })
            .expect("spawn");
        let _ = h.join();
        stop.store(true, Ordering::Relaxed);
        for h in storm_handles {
            let _ = h.join();
        }
    }
}

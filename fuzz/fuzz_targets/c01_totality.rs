//! Coverage-guided target for C01: the first two bytes pick syntax and options, the rest is the
//! stylesheet text, compiled in both output styles. Oracle inside the target: the call returns
//! (a panic aborts the fuzzer = finding, a hang trips libFuzzer's -timeout) and an error can be
//! rendered and converted to its public kind. Inputs nested deeper than 64 are skipped (known finding: unbounded recursion).
#![no_main]
use grass_compiler as grass;
use libfuzzer_sys::fuzz_target;

fn depth(s: &str) -> usize {
    let (mut d, mut m) = (0usize, 0usize);
    for c in s.chars() {
        match c {
            '(' | '[' | '{' => {
                d += 1;
                m = m.max(d);
            }
            ')' | ']' | '}' => d = d.saturating_sub(1),
            _ => {}
        }
    }
    m
}

fuzz_target!(|data: &[u8]| {
    if data.len() < 2 {
        return;
    }
    let (cfg, body) = data.split_at(2);
    let text = match std::str::from_utf8(body) {
        Ok(t) => t,
        Err(_) => return,
    };
    if depth(text) > 64 {
        return;
    }
    // loops that only burn time are not this target's subject
    if text.contains("@while") || text.contains("@for") || text.contains("@each") {
        return;
    }
    let syntax = match cfg[0] % 3 {
        0 => grass::InputSyntax::Scss,
        1 => grass::InputSyntax::Sass,
        _ => grass::InputSyntax::Css,
    };
    let run = |style: grass::OutputStyle| {
        let o = grass::Options::default()
            .input_syntax(syntax)
            .style(style)
            .quiet(true)
            .fs(&grass::NullFs)
            .logger(&grass::NullLogger)
            .unicode_error_messages(cfg[1] & 1 == 0)
            .allows_charset(cfg[1] & 2 == 0);
        grass::from_string(text.to_owned(), &o)
    };
    let a = run(grass::OutputStyle::Expanded);
    let b = run(grass::OutputStyle::Compressed);
    for r in [&a, &b] {
        if let Err(e) = r {
            let shown = e.to_string();
            assert!(shown.starts_with("Error: "), "unrenderable error: {:?}", shown);
            let _ = (**e).clone().kind();
        }
    }
});

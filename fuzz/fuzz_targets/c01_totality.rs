//! Coverage-guided target for C01: the first two bytes pick syntax and options, the rest is the
//! stylesheet text, compiled in both output styles. Oracle inside the target: the call returns
//! (a panic aborts the fuzzer = finding, a hang trips libFuzzer's -timeout) and an error can be
//! rendered and converted to its public kind. Excluded by construction (counted; written to
//! $VERIF_FUZZ_STATS/stats.<pid>): inputs nested deeper than 64 and inputs in which the body of a
//! mixin/function definition mentions a defined mixin/function name (possible unbounded recursion) -
//! both end in the known finding C01/stack-overflow-deep-nesting, and loops that only burn time.
#![no_main]
use grass_compiler as grass;
use libfuzzer_sys::fuzz_target;

fn depth(s: &str) -> usize {
    let (mut d, mut m) = (0usize, 0usize);
    for c in s.chars() {
        match c {
            '(' | '[' | '{' => {
                d += 1;
                m = m.max(d);
            }
            ')' | ']' | '}' => d = d.saturating_sub(1),
            _ => {}
        }
    }
    m
}

fn is_ident(c: u8) -> bool {
    c.is_ascii_alphanumeric() || c == b'-' || c == b'_' || c >= 0x80 || c == b'\\'
}

fn norm(b: &[u8]) -> Vec<u8> {
    b.iter().map(|c| if *c == b'_' { b'-' } else { *c }).collect()
}

/// (name, body range) of every `@mixin` / `@function` / `=name` definition; the body is found by
/// brace matching (SCSS) or by indentation (indented syntax). Deliberately over-approximate.
fn definitions(t: &[u8], sass: bool) -> Vec<(Vec<u8>, std::ops::Range<usize>)> {
    let mut out = vec![];
    let mut i = 0;
    while i < t.len() {
        let rest = &t[i..];
        let kw = if rest.starts_with(b"@mixin") {
            6
        } else if rest.starts_with(b"@function") {
            9
        } else if sass && rest[0] == b'=' && (i == 0 || t[i - 1] == b'\n' || t[i - 1] == b' ' || t[i - 1] == b'\t') {
            1
        } else {
            i += 1;
            continue;
        };
        let mut j = i + kw;
        while j < t.len() && (t[j] == b' ' || t[j] == b'\t') {
            j += 1;
        }
        let s0 = j;
        while j < t.len() && is_ident(t[j]) {
            j += 1;
        }
        let name = norm(&t[s0..j]);
        let body = if sass {
            // indentation of the definition line, then every following line indented deeper (or blank)
            let ls = t[..i].iter().rposition(|c| *c == b'\n').map_or(0, |p| p + 1);
            let ind = t[ls..].iter().take_while(|c| **c == b' ' || **c == b'\t').count();
            let mut k = t[j..].iter().position(|c| *c == b'\n').map_or(t.len(), |p| j + p + 1);
            let start = k;
            while k < t.len() {
                let le = t[k..].iter().position(|c| *c == b'\n').map_or(t.len(), |p| k + p + 1);
                let line = &t[k..le];
                let li = line.iter().take_while(|c| **c == b' ' || **c == b'\t').count();
                let blank = line.iter().all(|c| c.is_ascii_whitespace());
                if !blank && li <= ind {
                    break;
                }
                k = le;
            }
            start..k
        } else {
            match t[j..].iter().position(|c| *c == b'{') {
                None => j..t.len(),
                Some(p) => {
                    let open = j + p;
                    let mut d = 0usize;
                    let mut k = open;
                    let mut end = t.len();
                    while k < t.len() {
                        match t[k] {
                            b'{' => d += 1,
                            b'}' => {
                                d = d.saturating_sub(1);
                                if d == 0 {
                                    end = k;
                                    break;
                                }
                            }
                            _ => {}
                        }
                        k += 1;
                    }
                    open..end
                }
            }
        };
        if !name.is_empty() {
            out.push((name, body));
        }
        i = j.max(i + 1);
    }
    out
}

fn may_recurse(text: &str, sass: bool) -> bool {
    let t = text.as_bytes();
    let defs = definitions(t, sass);
    if defs.is_empty() {
        return false;
    }
    for (_, body) in &defs {
        let b = norm(&t[body.clone()]);
        for (name, _) in &defs {
            let mut from = 0;
            while from + name.len() <= b.len() {
                match b[from..].windows(name.len()).position(|w| w == &name[..]) {
                    None => break,
                    Some(p) => {
                        let s = from + p;
                        let e = s + name.len();
                        let left = s == 0 || !is_ident(b[s - 1]);
                        let right = e == b.len() || !is_ident(b[e]);
                        if left && right {
                            return true;
                        }
                        from = s + 1;
                    }
                }
            }
        }
    }
    false
}

static EXECS: std::sync::atomic::AtomicU64 = std::sync::atomic::AtomicU64::new(0);
static X_DEPTH: std::sync::atomic::AtomicU64 = std::sync::atomic::AtomicU64::new(0);
static X_LOOP: std::sync::atomic::AtomicU64 = std::sync::atomic::AtomicU64::new(0);
static X_REC: std::sync::atomic::AtomicU64 = std::sync::atomic::AtomicU64::new(0);
static COMPILED: std::sync::atomic::AtomicU64 = std::sync::atomic::AtomicU64::new(0);

fn stats() {
    use std::sync::atomic::Ordering::Relaxed;
    let n = EXECS.fetch_add(1, Relaxed) + 1;
    if n % 512 == 0 {
        if let Ok(dir) = std::env::var("VERIF_FUZZ_STATS") {
            let _ = std::fs::write(
                format!("{}/stats.{}", dir, std::process::id()),
                format!("{} {} {} {} {}\n", n, X_DEPTH.load(Relaxed), X_LOOP.load(Relaxed), X_REC.load(Relaxed), COMPILED.load(Relaxed)),
            );
        }
    }
}

fuzz_target!(|data: &[u8]| {
    use std::sync::atomic::Ordering::Relaxed;
    stats();
    if data.len() < 2 {
        return;
    }
    let (cfg, body) = data.split_at(2);
    let text = match std::str::from_utf8(body) {
        Ok(t) => t,
        Err(_) => return,
    };
    if depth(text) > 64 {
        X_DEPTH.fetch_add(1, Relaxed);
        return;
    }
    // loops that only burn time are not this target's subject
    if text.contains("@while") || text.contains("@for") || text.contains("@each") {
        X_LOOP.fetch_add(1, Relaxed);
        return;
    }
    if cfg[0] % 3 != 2 && may_recurse(text, cfg[0] % 3 == 1) {
        X_REC.fetch_add(1, Relaxed);
        return;
    }
    COMPILED.fetch_add(1, Relaxed);
    let syntax = match cfg[0] % 3 {
        0 => grass::InputSyntax::Scss,
        1 => grass::InputSyntax::Sass,
        _ => grass::InputSyntax::Css,
    };
    let run = |style: grass::OutputStyle| {
        let o = grass::Options::default()
            .input_syntax(syntax)
            .style(style)
            .quiet(true)
            .fs(&grass::NullFs)
            .logger(&grass::NullLogger)
            .unicode_error_messages(cfg[1] & 1 == 0)
            .allows_charset(cfg[1] & 2 == 0);
        grass::from_string(text.to_owned(), &o)
    };
    let a = run(grass::OutputStyle::Expanded);
    let b = run(grass::OutputStyle::Compressed);
    for r in [&a, &b] {
        if let Err(e) = r {
            let shown = e.to_string();
            assert!(shown.starts_with("Error: "), "unrenderable error: {:?}", shown);
            let _ = (**e).clone().kind();
        }
    }
});

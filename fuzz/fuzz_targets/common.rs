//! Input exclusions shared by the targets (same text as in c01_totality.rs).
#![allow(dead_code)]

pub fn depth(s: &str) -> usize {
    let (mut d, mut m) = (0usize, 0usize);
    for c in s.chars() {
        match c {
            '(' | '[' | '{' => {
                d += 1;
                m = m.max(d);
            }
            ')' | ']' | '}' => d = d.saturating_sub(1),
            _ => {}
        }
    }
    m
}

pub fn is_ident(c: u8) -> bool {
    c.is_ascii_alphanumeric() || c == b'-' || c == b'_' || c >= 0x80 || c == b'\\'
}

pub fn norm(b: &[u8]) -> Vec<u8> {
    b.iter().map(|c| if *c == b'_' { b'-' } else { *c }).collect()
}

/// (name, body range) of every `@mixin` / `@function` / `=name` definition; the body is found by
/// brace matching (SCSS) or by indentation (indented syntax). Deliberately over-approximate.
pub fn definitions(t: &[u8], sass: bool) -> Vec<(Vec<u8>, std::ops::Range<usize>)> {
    let mut out = vec![];
    let mut i = 0;
    while i < t.len() {
        let rest = &t[i..];
        let kw = if rest.starts_with(b"@mixin") {
            6
        } else if rest.starts_with(b"@function") {
            9
        } else if sass && rest[0] == b'=' && (i == 0 || t[i - 1] == b'\n' || t[i - 1] == b' ' || t[i - 1] == b'\t') {
            1
        } else {
            i += 1;
            continue;
        };
        let mut j = i + kw;
        while j < t.len() && (t[j] == b' ' || t[j] == b'\t') {
            j += 1;
        }
        let s0 = j;
        while j < t.len() && is_ident(t[j]) {
            j += 1;
        }
        let name = norm(&t[s0..j]);
        let body = if sass {
            // indentation of the definition line, then every following line indented deeper (or blank)
            let ls = t[..i].iter().rposition(|c| *c == b'\n').map_or(0, |p| p + 1);
            let ind = t[ls..].iter().take_while(|c| **c == b' ' || **c == b'\t').count();
            let mut k = t[j..].iter().position(|c| *c == b'\n').map_or(t.len(), |p| j + p + 1);
            let start = k;
            while k < t.len() {
                let le = t[k..].iter().position(|c| *c == b'\n').map_or(t.len(), |p| k + p + 1);
                let line = &t[k..le];
                let li = line.iter().take_while(|c| **c == b' ' || **c == b'\t').count();
                let blank = line.iter().all(|c| c.is_ascii_whitespace());
                if !blank && li <= ind {
                    break;
                }
                k = le;
            }
            start..k
        } else {
            match t[j..].iter().position(|c| *c == b'{') {
                None => j..t.len(),
                Some(p) => {
                    let open = j + p;
                    let mut d = 0usize;
                    let mut k = open;
                    let mut end = t.len();
                    while k < t.len() {
                        match t[k] {
                            b'{' => d += 1,
                            b'}' => {
                                d = d.saturating_sub(1);
                                if d == 0 {
                                    end = k;
                                    break;
                                }
                            }
                            _ => {}
                        }
                        k += 1;
                    }
                    open..end
                }
            }
        };
        if !name.is_empty() {
            out.push((name, body));
        }
        i = j.max(i + 1);
    }
    out
}

pub fn may_recurse(text: &str, sass: bool) -> bool {
    let t = text.as_bytes();
    let defs = definitions(t, sass);
    if defs.is_empty() {
        return false;
    }
    for (_, body) in &defs {
        let b = norm(&t[body.clone()]);
        for (name, _) in &defs {
            let mut from = 0;
            while from + name.len() <= b.len() {
                match b[from..].windows(name.len()).position(|w| w == &name[..]) {
                    None => break,
                    Some(p) => {
                        let s = from + p;
                        let e = s + name.len();
                        let left = s == 0 || !is_ident(b[s - 1]);
                        let right = e == b.len() || !is_ident(b[e]);
                        if left && right {
                            return true;
                        }
                        from = s + 1;
                    }
                }
            }
        }
    }
    false
}


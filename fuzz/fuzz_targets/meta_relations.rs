//! Coverage-guided target for the metamorphic relations of C18 (insignificant source variation)
//! and C06 (output style never decides success). Byte 0 picks the rewrite, byte 1 the options, the
//! rest is SCSS text. Oracle inside the target:
//!   C18  compile(text) and compile(rewrite(text)) give byte-identical CSS, or both fail, for
//!        rewrite in { every LF -> CRLF, -> CR, -> FF (sources holding CR/FF already are skipped),
//!        leading BOM, leading `@charset "UTF-8";` };
//!   C06  the expanded and the compressed compilation both succeed or both fail.
//! A disagreement aborts (assert!) and leaves an artifact; tools/fuzz_meta.sh turns every artifact
//! into C18/C06 replay cases and lets `vp replay` (release semantics, independent canonicaliser)
//! decide. Panics and hangs are C01's subject: they are caught here and skipped (counted).
//! Same exclusions as the C01 target (nesting > 64, loops, possible recursion) plus
//! random()/unique-id().
#![no_main]
use grass_compiler as grass;
use libfuzzer_sys::fuzz_target;
use std::sync::atomic::{AtomicU64, Ordering::Relaxed};

#[path = "common.rs"]
mod common;

static EXECS: AtomicU64 = AtomicU64::new(0);
static EXCLUDED: AtomicU64 = AtomicU64::new(0);
static PANICKED: AtomicU64 = AtomicU64::new(0);
static COMPARED: AtomicU64 = AtomicU64::new(0);
static BOTH_OK: AtomicU64 = AtomicU64::new(0);

fn stats() {
    let n = EXECS.fetch_add(1, Relaxed) + 1;
    if n % 512 == 0 {
        if let Ok(dir) = std::env::var("VERIF_FUZZ_STATS") {
            let _ = std::fs::write(
                format!("{}/stats.{}", dir, std::process::id()),
                format!("{} {} {} {} {}\n", n, EXCLUDED.load(Relaxed), PANICKED.load(Relaxed), COMPARED.load(Relaxed), BOTH_OK.load(Relaxed)),
            );
        }
    }
}

fn compile(text: &str, style: grass::OutputStyle, cfg: u8) -> Option<Result<String, ()>> {
    let text = text.to_owned();
    let r = std::panic::catch_unwind(move || {
        let o = grass::Options::default()
            .input_syntax(grass::InputSyntax::Scss)
            .style(style)
            .quiet(true)
            .fs(&grass::NullFs)
            .logger(&grass::NullLogger)
            .allows_charset(cfg & 2 == 0);
        grass::from_string(text, &o).map_err(|_| ())
    });
    r.ok()
}

fuzz_target!(|data: &[u8]| {
    static HOOK: std::sync::Once = std::sync::Once::new();
    HOOK.call_once(|| std::panic::set_hook(Box::new(|info| {
        // a failed relation must abort; a panic inside the compiler is C01's subject and is skipped
        let msg = info.payload().downcast_ref::<String>().cloned().or_else(|| info.payload().downcast_ref::<&str>().map(|s| s.to_string())).unwrap_or_default();
        if msg.starts_with("RELATION ") {
            eprintln!("{}", msg);
            std::process::abort();
        }
    })));
    stats();
    if data.len() < 3 {
        return;
    }
    let (cfg, body) = data.split_at(2);
    let text = match std::str::from_utf8(body) {
        Ok(t) => t,
        Err(_) => return,
    };
    let low = text.to_ascii_lowercase();
    if common::depth(text) > 64
        || low.contains("@while")
        || low.contains("@for")
        || low.contains("@each")
        || low.contains("random")
        || low.contains("unique")
        || common::may_recurse(text, false)
    {
        EXCLUDED.fetch_add(1, Relaxed);
        return;
    }
    let style = if cfg[1] & 1 == 0 { grass::OutputStyle::Expanded } else { grass::OutputStyle::Compressed };
    let other = if cfg[1] & 1 == 0 { grass::OutputStyle::Compressed } else { grass::OutputStyle::Expanded };
    let a = match compile(text, style, cfg[1]) {
        Some(r) => r,
        None => {
            PANICKED.fetch_add(1, Relaxed);
            return;
        }
    };
    // C06: the other style agrees on success
    if let Some(o) = compile(text, other, cfg[1]) {
        if a.is_ok() != o.is_ok() {
            panic!("RELATION C06 style-decides-success");
        }
    }
    // C18: one rewrite per input
    let has_cr = text.contains('\r') || text.contains('\u{c}');
    let (name, b_text) = match cfg[0] % 5 {
        0 if !has_cr => ("newline-crlf", text.replace('\n', "\r\n")),
        1 if !has_cr => ("newline-cr", text.replace('\n', "\r")),
        2 if !has_cr => ("newline-ff", text.replace('\n', "\u{c}")),
        // a second BOM is an ordinary character, and @charset is only skipped at the very start
        3 if !text.starts_with('\u{feff}') => ("leading-bom", format!("\u{feff}{}", text)),
        4 if !text.starts_with('\u{feff}') && !text.trim_start().starts_with("@charset") => ("leading-charset", format!("@charset \"UTF-8\";\n{}", text)),
        _ => return,
    };
    if b_text == text {
        return;
    }
    let b = match compile(&b_text, style, cfg[1]) {
        Some(r) => r,
        None => {
            PANICKED.fetch_add(1, Relaxed);
            return;
        }
    };
    COMPARED.fetch_add(1, Relaxed);
    if a.is_ok() && b.is_ok() {
        BOTH_OK.fetch_add(1, Relaxed);
    }
    if a != b {
        panic!("RELATION C18 {}", name);
    }
});

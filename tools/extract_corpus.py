#!/usr/bin/env python3
"""Extract the golden corpus: every test!/error! invocation of /repo/crates/lib/tests/*.rs.

Writes /verif/corpus/corpus.json: a list of
  {"name", "file", "kind": "test"|"error", "input", "expected", "syntax": "scss"|"sass"|"css",
   "style": "expanded"|"compressed", "default_options": bool}
Rust string literals (normal, raw, with `\\` line continuations) are decoded by a small literal
parser; invocations whose arguments are not plain literals are skipped (counted on stderr).
"""
import glob, json, os, re, sys

ROOT = sys.argv[1] if len(sys.argv) > 1 else "/repo/crates/lib/tests"
OUT = sys.argv[2] if len(sys.argv) > 2 else "/verif/corpus/corpus.json"


def skip_ws(s, i):
    n = len(s)
    while i < n:
        if s[i].isspace():
            i += 1
        elif s.startswith("//", i):
            j = s.find("\n", i)
            i = n if j < 0 else j + 1
        elif s.startswith("/*", i):
            j = s.find("*/", i + 2)
            i = n if j < 0 else j + 2
        else:
            break
    return i


def parse_str(s, i):
    """parse a Rust string literal starting at s[i]; returns (value, next) or None"""
    n = len(s)
    if s.startswith("r", i) and i + 1 < n and s[i + 1] in '#"':
        j = i + 1
        hashes = 0
        while j < n and s[j] == "#":
            hashes += 1
            j += 1
        if j >= n or s[j] != '"':
            return None
        j += 1
        end = '"' + "#" * hashes
        k = s.find(end, j)
        if k < 0:
            return None
        return s[j:k], k + len(end)
    if s[i] != '"':
        return None
    j = i + 1
    out = []
    while j < n:
        c = s[j]
        if c == '"':
            return "".join(out), j + 1
        if c == "\\":
            d = s[j + 1]
            if d == "n":
                out.append("\n"); j += 2
            elif d == "t":
                out.append("\t"); j += 2
            elif d == "r":
                out.append("\r"); j += 2
            elif d == "0":
                out.append("\0"); j += 2
            elif d == "\\":
                out.append("\\"); j += 2
            elif d == '"':
                out.append('"'); j += 2
            elif d == "'":
                out.append("'"); j += 2
            elif d == "x":
                out.append(chr(int(s[j + 2:j + 4], 16))); j += 4
            elif d == "u":
                k = s.find("}", j)
                out.append(chr(int(s[j + 3:k], 16))); j = k + 1
            elif d == "\n":
                j += 2
                while j < n and s[j] in " \t\n\r":
                    j += 1
            else:
                return None
        else:
            out.append(c); j += 1
    return None


def parse_expr_strs(s, i):
    """a string literal or concat!(lit, lit, ...) ; returns (value, next) or None"""
    i = skip_ws(s, i)
    if s.startswith("concat!", i):
        j = skip_ws(s, i + 7)
        if s[j] != "(":
            return None
        j += 1
        parts = []
        while True:
            j = skip_ws(s, j)
            if s[j] == ")":
                return "".join(parts), j + 1
            r = parse_str(s, j)
            if r is None:
                return None
            parts.append(r[0])
            j = skip_ws(s, r[1])
            if s[j] == ",":
                j += 1
    return parse_str(s, i)


def main():
    entries = []
    skipped = 0
    for path in sorted(glob.glob(os.path.join(ROOT, "*.rs"))):
        base = os.path.basename(path)
        if base == "macros.rs":
            continue
        src = open(path, encoding="utf-8").read()
        for m in re.finditer(r"^(test|error)!\(", src, re.M):
            kind = m.group(1)
            i = skip_ws(src, m.end())
            # attributes
            ignored = False
            while src.startswith("#[", i):
                j = src.find("]", i)
                if "ignore" in src[i:j]:
                    ignored = True
                i = skip_ws(src, j + 1)
            mm = re.match(r"[A-Za-z_][A-Za-z0-9_]*", src[i:])
            if not mm:
                skipped += 1
                continue
            name = mm.group(0)
            i = skip_ws(src, i + len(name))
            if src[i] != ",":
                skipped += 1
                continue
            a = parse_expr_strs(src, i + 1)
            if a is None:
                skipped += 1
                continue
            i = skip_ws(src, a[1])
            if src[i] != ",":
                skipped += 1
                continue
            b = parse_expr_strs(src, i + 1)
            if b is None:
                skipped += 1
                continue
            i = skip_ws(src, b[1])
            syntax, style, default = "scss", "expanded", True
            if src[i] == ",":
                j = skip_ws(src, i + 1)
                if src[j] != ")":
                    k = src.find(");", j)
                    opt = src[j:k]
                    default = False
                    if "InputSyntax::Css" in opt:
                        syntax = "css"
                    elif "InputSyntax::Sass" in opt:
                        syntax = "sass"
                    if "Compressed" in opt:
                        style = "compressed"
                    if ".fs(" in opt or "logger" in opt or "load_path" in opt:
                        # needs an environment the corpus does not carry
                        skipped += 1
                        continue
            entries.append({
                "name": name, "file": base, "kind": kind, "input": a[0], "expected": b[0],
                "syntax": syntax, "style": style, "default_options": default, "ignored": ignored,
            })
    os.makedirs(os.path.dirname(OUT), exist_ok=True)
    json.dump(entries, open(OUT, "w"), ensure_ascii=False, indent=0)
    print(f"{len(entries)} entries, {skipped} skipped", file=sys.stderr)


main()

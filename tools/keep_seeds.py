#!/usr/bin/env python3
"""Copies confirmed seeded changes from /tmp/s/<Cxx>/out into /verif/seeded/<Cxx>-<n>/ and writes meta.json.
RESULTS below is maintained by hand from the runs of tools/try_seed.sh (quick tier, seed 0)."""
import json, os, shutil, sys
RESULTS = {
 # id: (caught_by, missed_by_other_checks_tried, initially_missed?, what was strengthened)
 "C01-1": (["C01"], [], True, "the rgb() panic needs a slash-separated list with fewer than two elements: such list shapes were added to the built-in argument pool (gen/text.rs ARG_VALUES)"),
 "C01-2": (["C01"], ["C05"], True, "the lexer panic needs non-ASCII text interpolated into a selector: class G3 (generated sheets / rule trees / programs, with 0-2 mutations) was added to C01 and the sheet generator now varies $s over non-ASCII strings and interpolates it at the start of selectors"),
 "C02-1": (["C02"], [], False, ""),
 "C02-2": (["C02"], ["C12"], True, "needed members enumerated through `@forward … show`: the `gen-forwarded-members` program kind and an unconditional second compilation on a fresh thread (`repeat-fresh-thread`) were added"),
 "C03-1": (["C03"], [], True, "needed a default that reads an outer variable whose name is also a later parameter passed by keyword: the parameter generator now reuses names read by earlier defaults for later parameters"),
 "C03-2": (["C03"], [], False, ""),
 "C04-1": (["C04"], [], False, ""),
 "C04-2": (["C04"], [], False, ""),
 "C05-1": (["C05"], [], True, "the round trip output -> CSS -> output is blind to an escape that changes the value consistently; strings whose exact value the generator knows (`s<k>: \"…\"` over control characters, hex letters, quotes, non-ASCII) are now compared with the emitted token"),
 "C05-2": (["C05"], ["C18"], True, "attribute selectors with generated values (`-1`, `-`, `1a`, empty, …) were added to the sheet generator"),
 "C06-1": (["C06", "C15"], [], False, ""),
 "C06-2": (["C06"], ["C05"], False, ""),
 "C07-1": (["C07"], ["C06"], False, ""),
 "C07-2": (["C07"], ["C09"], False, ""),
 "C08-1": (["C08"], [], False, ""),
 "C08-2": (["C08"], ["C07"], True, "needed equal raw magnitudes with two different convertible units: a fourth magnitude (5 and 5) was added to the exhaustive pair enumeration"),
 "C09-1": (["C09", "C14"], [], False, ""),
 "C09-2": (["C09"], ["C07"], False, ""),
 "C10-1": (["C10"], [], True, "needed an @extend chain of three links all declared before the target rule: every permutation of chains of 2..4 links is now enumerated (`directed:chain-order`)"),
 "C10-2": (["C10", "C11"], [], False, ""),
 "C11-1": (["C11", "C10"], [], False, ""),
 "C11-2": (["C11"], ["C10"], False, ""),
 "C12-1": (["C12"], [], False, ""),
 "C12-2": (["C12"], [], False, ""),
 "C13-1": (["C13"], [], False, ""),
 "C13-2": (["C13"], [], False, ""),
 "C14-1": (["C14"], [], True, "needed a nested-key path that continues, after a missing or non-map key, with a key of the outermost map: key paths now do that"),
 "C14-2": (["C14"], [], False, ""),
 "C15-1": (["C15"], [], True, "needed a second HSL operation (or accessor) on a lighten()/darken() result: the rebuild law on every function result now also requires lightness/saturation in [0%,100%] and lighten/darken by 0% to be identities"),
 "C15-2": (["C15"], ["C09"], False, ""),
 "C16-1": (["C16"], ["C05"], False, ""),
 "C16-2": (["C16"], [], False, ""),
 "C17-1": (["C17"], [], False, ""),
 "C17-2": (["C17"], [], False, ""),
 "C18-1": (["C18"], ["C03"], True, "needed a nested @if without @else as the last child of an @if that has an @else, in the indented syntax: SassScript programs are now printed through both printers in C18 (`scss-vs-sass-program`, CSS and logger messages compared); before that only rule trees were"),
 "C18-2": (["C18"], [], True, "needed a line break directly before a negative number inside a space-separated value: the `value-gaps` rewrite (whitespace inside declaration values, always rewritten before a sign) and lists with negative non-first items were added"),
 "C19-1": (["C01"], ["C19"], False, "the change makes the library panic (codemap assertion) where an error should be returned; C19 counts abnormal outcomes as C01's subject, and C01 reports it (class G3: non-ASCII text interpolated into selectors / queries)"),
 "C19-2": (["C19", "C18"], [], True, "needed CRLF line endings and a directive deep in the file: logging programs are now also written with CRLF (expected lines unchanged)"),
 "C20-1": (["C20"], [], True, "needed the same module in two load paths given in non-sorted order: `load-path-precedence` projects were added"),
 "C20-2": (["C20"], [], True, "needed an output file that exists before the run and is longer than the new CSS: the output file is now pre-filled with empty / short / long stale content in three of four runs"),
}
conf = {}
for l in open('/tmp/confirm/results.txt'):
    k = l.split()[0]; conf[k] = l.strip()
kept = 0
for key, (caught, missed, init_missed, note) in sorted(RESULTS.items()):
    cid, n = key.split('-')
    src = f'/tmp/s/{cid}/out'
    if key not in conf or 'existing_suite_failures=0' not in conf[key] or 'demo_with_change=fails' not in conf[key] or 'demo_without_change=passes' not in conf[key]:
        print("not confirmed (yet):", key, conf.get(key)); continue
    dst = f'/verif/seeded/{key}'
    os.makedirs(dst, exist_ok=True)
    shutil.copy(f'{src}/patch{n}.diff', f'{dst}/patch.diff')
    for ext in ('rs', 'sh'):
        if os.path.exists(f'{src}/demo{n}.{ext}'): shutil.copy(f'{src}/demo{n}.{ext}', f'{dst}/demo.{ext}')
    try: m = json.load(open(f'{src}/meta{n}.json'))
    except Exception: m = {}
    meta = {
        "property": cid, "seed": key,
        "summary": m.get("summary"), "breaks": m.get("breaks"), "needs_to_manifest": m.get("needs_to_manifest"), "files": m.get("files"),
        "author": "fresh sub-agent given only the property text and a scratch worktree",
        "confirmed_by_coordinator": {"how": "tools/confirm_seed.sh in scratch worktree /tmp/confirm/repo: patch applied, full `cargo test --workspace` run, demonstration run with and without the change", "result": conf[key]},
        "checks_run": {"command": f"tools/try_seed.sh seeded/{key}/patch.diff " + " ".join(caught + missed), "caught_by": caught, "not_caught_by": missed},
        "initially_missed": init_missed, "strengthening": note,
    }
    json.dump(meta, open(f'{dst}/meta.json', 'w'), indent=1)
    kept += 1
print("kept", kept)

#!/usr/bin/env python3
"""Regenerates /verif/MANIFEST.json from the table below (keeps it valid at all times)."""
import json, subprocess

CLAIMED = {
 "C01": ("generated-input search (proptest): corpus under three syntaxes, corpus mutations, generated sheets / rule trees / SassScript programs (programs the reference interpreter finishes must also terminate in evaluation), token soup, built-in calls, raw bytes through from_path/@import/@use/@forward, depth ladder; oracle = returns Ok/Err, no panic/abort/parser hang, in a watchdog-supervised worker; thorough adds a coverage-guided libFuzzer + ASan campaign with the same oracle in the target",
         "Sampling of the input space with shrinking; a green run means no crash, abort or parser hang among the generated inputs (counts in evidence). Coverage-guided libFuzzer campaign in the thorough tier.",
         "2/C01"),
 "C02": ("metamorphic relation over histories (proptest vec of prior compilations incl. identifier-permuting sheets), fresh-process repeats and concurrent thread storms; oracle = byte equality with the fresh-thread run; unique-id() distinctness",
         "Sampling of histories, process repeats and real thread interleavings; a green run means no dependence on earlier compilations, hash seeds or concurrent threads was observed among the generated cases beyond the listed known findings.",
         "2/C02"),
 "C05": ("generated value-heavy sheets (proptest) and the enumerated corpus x style x allows_charset; oracles = UTF-8 validity, independent CSS tokenizer (balance, termination), Sass-leftover scan, charset/BOM rule, and the round trip output -> plain-CSS compile -> same canonical token tree",
         "Sampling plus enumeration of the corpus; a green run means every explored successful compilation produced well-formed Sass-free CSS that the compiler reproduces from its own output. Outputs that are not CSS-representable by an independent token criterion are discarded and counted.",
         "2/C05"),
 "C06": ("metamorphic relation expanded vs compressed over the whole corpus (enumerated) and proptest-generated value-heavy sheets; oracle = independent CSS tokenizer/canonicaliser (numbers by exact decimal value, colours as rgba), textual equality of selectors, property names, string contents and logger messages",
         "Sampling plus complete enumeration of the golden corpus; a green run means the two styles described the same CSS for every explored input outside the listed known finding (style-dependent interpolation).",
         "2/C06"),
 "C13": ("generated virtual file-system layouts (proptest) x import URLs x load paths x @import/@use/@forward; oracle = independent resolution model written from the property text + recording Fs (every call must be a candidate of the search) + real-disk decoys",
         "Sampling of layouts with shrinking; a green run means the loaded file, the error site and every Fs call agreed with the documented search order for all generated layouts.",
         "2/C13"),
 "C17": ("exhaustive enumeration of single-query pairs/triples/list pairs (quick) plus proptest-generated list pairs/triples (thorough); oracle = independent media-query parser and truth-table evaluator over media type x feature assignments",
         "Quick tier enumerates its finite domain completely (exhaustive: true); thorough adds sampled list pairs/triples. Holds for the bounded query alphabet only.",
         "2/C17"),
 "C18": ("metamorphic pairs over proptest-generated sources: rule trees through two independent printers (SCSS / indented), generated plain CSS parsed as CSS vs SCSS, 30 Sass-only constructs that CSS mode must reject, and token-preserving rewrites (LF/CRLF/CR/FF, BOM, @charset, whitespace + silent comments at safe gaps, _/- in names) of corpus entries, value-heavy sheets and rule trees; oracle = byte-identical CSS or both fail",
         "Sampling of sources and rewrites with shrinking; a green run means every explored pair agreed.",
         "2/C18"),
 "C03": ("proptest-generated well-typed terminating programs over the Sass core (variables, !default/!global, @if/@for/@each/@while, functions, mixins with all argument forms, @content using, @debug/@warn); oracle = independent reference interpreter written from the language rules, comparing per-selector declaration sequences and the logger message sequence",
         "Sampling of programs with shrinking; a green run means grass and the reference interpreter agreed on every generated program (bounded depth 4, loop bounds <= 6, <= 60 statements).",
         "2/C03"),
 "C19": ("(a) failing inputs from C01's proptest generators x unicode on/off judged by an independent location/rendering oracle over the file texts; (b) proptest-generated logging programs that the generator evaluates itself, compared with the calls recorded by a collecting Logger (kind, file, line, text; quiet; @error = inspect); (c) worker stdout/stderr must stay empty",
         "Sampling of failing inputs and logging programs with shrinking; a green run means every explored error was located inside the named file and rendered, and every logging program delivered exactly the expected Logger calls.",
         "2/C19"),
 "C20": ("differential CLI vs library over proptest-generated invocations (corpus entries, mutations, value-heavy sheets, logging programs, load-path projects, missing files) x flag subsets x {file, --stdin} x {stdout, output file}; oracle = the library run in-process on the same files with the equivalent Options: exit status, stdout/output-file bytes, stderr content",
         "Sampling of invocations; a green run means the built binary agreed with the library on every explored invocation.",
         "2/C20"),
 "C04": ("proptest-generated rule trees (style rules with & in every position, nested properties, @media/@supports/unknown at-rules, @at-root with/without queries); oracle = independent hand-flattening model compared as multiset, per at-rule-path order and global order",
         "Sampling of rule trees with shrinking; a green run means flattening agreed with the model on every generated tree (bounded depth 4 / width 3).",
         "2/C04"),
 "C07": ("proptest-generated literals and operation chains dense near rounding/tolerance boundaries, batched ~500 per compile in both styles; oracle = exact big-integer decimal expansion of IEEE doubles (printing), IEEE model with error bounds (arithmetic, %, division by zero), three-zone tolerance model (comparisons, integer checks), libm (sass:math)",
         "Sampling; a green run means every generated value was computed, compared and printed as the rules require, within the stated tolerances.",
         "2/C07"),
 "C08": ("exhaustive enumeration of all 36x36 ordered unit pairs x 12 operations x 3 magnitudes plus conversion laws and three-factor chains (quick); proptest-generated compound-unit chains (thorough); oracle = independent CSS unit table with exact rational ratios and unit algebra",
         "The pair space is enumerated completely (exhaustive: true in the quick tier); compound units are sampled.",
         "2/C08"),
 "C09": ("fixed universe of ~200 value spellings: all ordered pairs evaluated, equivalence laws decided on the boolean matrix over all triples; duplicate-key literals for every pair; proptest-generated map operation sequences against an association-list model keyed by the observed ==; thorough: proptest-generated universes",
         "The fixed universe is judged completely (pairs and triples); universes and map sequences beyond it are sampled.",
         "2/C09"),
 "C10": ("directed and proptest-generated @extend sheets judged by an independent selector matcher over all DOM forests with <= 3 elements (exhaustive when <= 200 000) plus sampled 4-5 element forests: credited-matching equivalence/soundness, first law, specificity law, placeholder absence, rule-order permutations, @media and missing-target rules",
         "Sampling of sheets; per sheet the small-DOM space is enumerated. Holds for the bounded selector alphabet and DOM size only.",
         "2/C10"),
 "C11": ("proptest-generated selector pairs; each selector function judged against DOM matching (is-superselector soundness/reflexivity, unify within the intersection, extend/replace vs @extend), against nested rules (nest/append) and for crashes, with the same independent matcher as C10",
         "Sampling of selector pairs; per pair the small-DOM space is enumerated.",
         "2/C11"),
 "C12": ("proptest-generated multi-file projects on an in-memory Fs (DAGs and loops of <= 6 modules, @use/@forward with namespaces, prefixes, show/hide, with) against an independent module-graph model; module-function vs global-alias differential over generated arguments",
         "Sampling of projects with shrinking; compares success/error and the declaration sequence with the model. Projects whose outcome equals a model variant containing only a listed known finding are excluded and counted.",
         "2/C12"),
 "C14": ("proptest-generated calls (well- and ill-typed, positional/named) of 27 list/map/string built-ins batched per compile; oracle = reference implementations written from the Sass documentation + six reference-free laws + module/global alias differential",
         "Sampling of calls; a green run means results (inspect text), errors and aliases agreed with the documented semantics for every generated call outside the listed known region.",
         "2/C14"),
 "C15": ("exhaustive enumeration of the 148 names, 4096 short-hex colours in all spellings, alpha bytes and a 17^3 lattice (quick) or all 2^24 colours (thorough), plus proptest-generated constructor/function batches; oracle = CSS Color formulas, independent name table, reference adjust/scale/change",
         "Finite sub-spaces are enumerated completely; function arguments are sampled. Ties at .5 accept either rounding.",
         "2/C15"),
 "C16": ("proptest-generated calc()/min()/max()/clamp() expressions (depth 4, variables, interpolation); oracle = independent calc parser and evaluator comparing source and output under three unit environments, plus must-simplify / must-reject rules",
         "Sampling of expressions; a green run means every emitted calculation evaluated to the source's value (1e-9 of magnitude) and incompatible direct operands were rejected.",
         "2/C16"),
}

NOT_YET = {}

def main():
    props = [json.loads(l) for l in open("/verif/properties.jsonl")]
    fixes = subprocess.run(["git","-C","/repo","log","--format=%h %s","8539e4d..HEAD"],capture_output=True,text=True).stdout.strip().split("\n")
    checks = []
    na = []
    for p in props:
        i = p["id"]
        if i in CLAIMED:
            tech, text, ref = CLAIMED[i]
            checks.append({
                "property_id": i,
                "quick_cmd": f"./check {i} quick",
                "thorough_cmd": f"./check {i} thorough",
                "evidence_file": f"/verif/evidence/{i}.json",
                "replay_cmd_template": "./check --replay {path}",
                "engine": "vp",
                "level_claimed": {"category": "exploration", "text": text, "design_ref": f"DESIGN.md §{ref}"},
                "level_note": "Trusted: the harness's independent oracle for this property (see DESIGN.md §1.6), proptest, the sandboxed worker; /repo/crates/compiler is linked from the working tree with release semantics. Absence of violations is not established.",
                "technique": tech,
            })
        else:
            na.append({"property_id": i, "reason": NOT_YET.get(i, "check not built yet in this revision of /verif (planned, see DESIGN.md §2); not a limitation of the technique")})
    m = {
        "version": 1,
        "setup_cmd": "cd /verif/harness && CARGO_NET_OFFLINE=true cargo build --release --offline && cd /verif && ./check --build-cli",
        "hooks": {
            "guard": "grass_verif",
            "enable": "none needed: every observation point is reachable through the public API (RUSTFLAGS='--cfg grass_verif' is reserved)",
            "baseline_off_cmd": "cd /repo && cargo test --workspace --no-fail-fast --offline",
            "source_commits": [],
            "add_only": True,
        },
        "engines": [
            {"name": "vp", "path": "/verif/harness", "serves_properties": [c["property_id"] for c in checks],
             "kind_free_text": "Rust binary: proptest-driven generated search, sharded over 16 sandboxed worker processes with a watchdog; independent oracles; replay files; known-findings matching"},
        ],
        "checks": checks,
        "not_applicable": na,
        "notes": "fix: commits in /repo (genuine defects found by the checks): " + "; ".join(f for f in fixes if f),
    }
    json.dump(m, open("/verif/MANIFEST.json", "w"), indent=1)
    print(len(checks), "claimed,", len(na), "not claimed")

main()

#!/bin/bash
# Coverage-guided campaign for C01 (thorough tier): libFuzzer + ASan on fuzz/fuzz_targets/c01_totality.rs.
# usage: tools/fuzz_c01.sh <runs per worker> <seed>
# Every crash/timeout artifact is converted into a C01 replay case and re-judged by `vp replay`
# (release semantics, sandboxed worker); only confirmed ones are reported as VIOLATION.
ROOT="$(cd "$(dirname "$0")/.." && pwd)"
RUNS=${1:-50000}; SEED=${2:-1}; [ "$SEED" = "0" ] && SEED=1
FZ="$ROOT/fuzz"; T="$FZ/target/campaign"
rm -rf "$T"; mkdir -p "$T/corpus" "$T/artifacts"
cp /repo/Cargo.lock "$FZ/Cargo.lock" 2>/dev/null
python3 - "$ROOT" "$T/corpus" <<'PY'
import json,sys,os
root,out=sys.argv[1:3]
c=json.load(open(os.path.join(root,'corpus','corpus.json')))
syn={'scss':0,'sass':1,'css':2}
for i,e in enumerate(c):
    if len(e['input'])>1500: continue
    open(os.path.join(out,'c%04d'%i),'wb').write(bytes([syn[e['syntax']],0])+e['input'].encode())
PY
cd "$FZ" || exit 2
if ! cargo +nightly fuzz build --fuzz-dir "$FZ" c01_totality >"$T/build.log" 2>&1; then
    tail -n 30 "$T/build.log" >&2; echo "INCONCLUSIVE: fuzz target build failed" >&2; exit 2
fi
BIN=$(ls "$FZ"/target/*/release/c01_totality 2>/dev/null | head -1)
[ -x "$BIN" ] || { echo "INCONCLUSIVE: fuzz binary not found" >&2; exit 2; }
# 48 jobs on 16 workers: a job that dies on a (known) stack overflow is replaced by the next one
JOBS=48; PER=$(( RUNS * 16 / JOBS )); mkdir -p "$T/stats"; export VERIF_FUZZ_STATS="$T/stats"
# the interner is a process-lifetime static: no leak reports (in the loop or at exit)
export ASAN_OPTIONS=detect_leaks=0
( cd "$T" && "$BIN" corpus -runs="$PER" -seed="$SEED" -max_len=2048 -len_control=0 -timeout=60 -rss_limit_mb=4096 \
    -dict="$FZ/sass.dict" -artifact_prefix="$T/artifacts/" -detect_leaks=0 -jobs=$JOBS -workers=16 -print_final_stats=1 >"$T/fuzz.log" 2>&1 )
EXECS=$(cat "$T"/fuzz-*.log 2>/dev/null | grep -a "stat::number_of_executed_units" | awk '{s+=$2} END {print s+0}')
STATS=$(cat "$T"/stats/stats.* 2>/dev/null | awk '{e+=$1;d+=$2;l+=$3;r+=$4;c+=$5} END {printf "%d %d %d %d %d", e,d,l,r,c}')
echo "fuzz campaign: $EXECS executions (sampled counters: execs/excluded-depth/excluded-loops/excluded-possible-recursion/compiled = $STATS), corpus $(ls "$T/corpus" | wc -l) files, $(ls "$T/artifacts" | wc -l) artifacts"
rc=0; : > "$T/known.txt"
for a in "$T"/artifacts/*; do
    [ -f "$a" ] || continue
    python3 - "$a" "$T/replay.json" <<'PY'
import json,sys
b=open(sys.argv[1],'rb').read()
if len(b)<2: sys.exit(1)
syn=['Scss','Sass','Css'][b[0]%3]
try: text={"Text": b[2:].decode('utf-8')}
except UnicodeDecodeError: sys.exit(1)
case={"class":"fuzz-artifact","text":text,"syntax":syn,"style":"Expanded","quiet":True,"unicode":b[1]&1==0,"charset":b[1]&2==0,"mode":"FromString","bounded":False}
json.dump({"property":"C01","case":case},open(sys.argv[2],'w'))
PY
    [ $? -eq 0 ] || continue
    out=$(VP_REPLAY_KNOWN=1 "$ROOT/harness/target/release/vp" replay "$T/replay.json")
    if echo "$out" | grep -q "^VIOLATION"; then
        mkdir -p "$ROOT/replays/C01"; dst="$ROOT/replays/C01/fuzz-$(basename "$a").json"; cp "$T/replay.json" "$dst"
        echo "VIOLATION property=C01 replay=$dst"; rc=1
    else
        # artifacts whose failure is a listed known finding: one line per finding, with a count
        echo "$out" | grep "^KNOWN-FINDING" >> "$T/known.txt"
    fi
done
sort "$T/known.txt" | uniq -c | while read n line; do echo "$line [$n fuzz artifacts]"; done
echo "$EXECS" > "$T/executions"
echo "$STATS" > "$T/counters"
exit $rc

#!/bin/bash
# Coverage-guided campaign for C01 (thorough tier): libFuzzer + ASan on fuzz/fuzz_targets/c01_totality.rs.
# usage: tools/fuzz_c01.sh <runs per worker> <seed>
# Every crash/timeout artifact is converted into a C01 replay case and re-judged by `vp replay`
# (release semantics, sandboxed worker); only confirmed ones are reported as VIOLATION.
ROOT="$(cd "$(dirname "$0")/.." && pwd)"
RUNS=${1:-50000}; SEED=${2:-1}; [ "$SEED" = "0" ] && SEED=1
FZ="$ROOT/fuzz"; T="$FZ/target/campaign"
rm -rf "$T"; mkdir -p "$T/corpus" "$T/artifacts"
cp /repo/Cargo.lock "$FZ/Cargo.lock" 2>/dev/null
python3 - "$ROOT" "$T/corpus" <<'PY'
import json,sys,os
root,out=sys.argv[1:3]
c=json.load(open(os.path.join(root,'corpus','corpus.json')))
syn={'scss':0,'sass':1,'css':2}
for i,e in enumerate(c):
    if len(e['input'])>1500: continue
    open(os.path.join(out,'c%04d'%i),'wb').write(bytes([syn[e['syntax']],0])+e['input'].encode())
PY
cd "$FZ" || exit 2
if ! cargo +nightly fuzz build --fuzz-dir "$FZ" c01_totality >"$T/build.log" 2>&1; then
    tail -n 30 "$T/build.log" >&2; echo "INCONCLUSIVE: fuzz target build failed" >&2; exit 2
fi
BIN=$(ls "$FZ"/target/*/release/c01_totality 2>/dev/null | head -1)
[ -x "$BIN" ] || { echo "INCONCLUSIVE: fuzz binary not found" >&2; exit 2; }
( cd "$T" && "$BIN" corpus -runs="$RUNS" -seed="$SEED" -max_len=2048 -len_control=0 -timeout=60 -rss_limit_mb=4096 \
    -dict="$FZ/sass.dict" -artifact_prefix="$T/artifacts/" -detect_leaks=0 -jobs=16 -workers=16 -print_final_stats=1 >"$T/fuzz.log" 2>&1 )
EXECS=$(cat "$T"/fuzz-*.log 2>/dev/null | grep -a "stat::number_of_executed_units" | awk '{s+=$2} END {print s+0}')
echo "fuzz campaign: $EXECS executions, corpus $(ls "$T/corpus" | wc -l) files, $(ls "$T/artifacts" | wc -l) artifacts"
rc=0
for a in "$T"/artifacts/*; do
    [ -f "$a" ] || continue
    python3 - "$a" "$T/replay.json" <<'PY'
import json,sys
b=open(sys.argv[1],'rb').read()
if len(b)<2: sys.exit(1)
syn=['Scss','Sass','Css'][b[0]%3]
try: text={"Text": b[2:].decode('utf-8')}
except UnicodeDecodeError: sys.exit(1)
case={"class":"fuzz-artifact","text":text,"syntax":syn,"style":"Expanded","quiet":True,"unicode":b[1]&1==0,"charset":b[1]&2==0,"mode":"FromString","bounded":False}
json.dump({"property":"C01","case":case},open(sys.argv[2],'w'))
PY
    [ $? -eq 0 ] || continue
    if "$ROOT/harness/target/release/vp" replay "$T/replay.json" | grep -q "^VIOLATION"; then
        mkdir -p "$ROOT/replays/C01"; dst="$ROOT/replays/C01/fuzz-$(basename "$a").json"; cp "$T/replay.json" "$dst"
        # known findings are matched by the normal C01 run; here anything that still fails is reported
        echo "VIOLATION property=C01 replay=$dst"; rc=1
    fi
done
echo "$EXECS" > "$T/executions"
exit $rc

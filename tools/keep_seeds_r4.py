#!/usr/bin/env python3
"""Fourth seeding round: copies the confirmed, non-duplicate changes from /tmp/s/<Cxx>/out into
/verif/seeded/<Cxx>-r4-<n>/ with meta.json. FIRST = result of the property's own quick check (and
neighbours tried) before any strengthening; NOW = result after it (same command, VERIF_SEED 0 or 1)."""
import json, os, shutil
conf = {l.split()[0]: l.strip() for l in open('/tmp/confirm/results.txt')}
FIRST = {
 "C01-r4-1": (["C01"], []), "C01-r4-2": ([], ["C01"]), "C04-r4-1": (["C04"], []), "C04-r4-2": (["C04"], []),
 "C05-r4-2": ([], ["C05", "C04"]), "C06-r4-1": (["C06"], []), "C06-r4-2": (["C06"], []), "C09-r4-2": (["C09"], []),
 "C12-r4-2": ([], ["C12"]), "C13-r4-1": ([], ["C13"]), "C14-r4-1": (["C14"], []), "C15-r4-1": (["C15"], []),
 "C15-r4-2": (["C15"], []), "C16-r4-2": (["C01"], ["C16"]), "C17-r4-2": ([], ["C17"]), "C18-r4-1": ([], ["C18", "C12"]),
 "C18-r4-2": ([], ["C18"]), "C08-r4-2": ([], ["C08"]),
}
NOW = {
 "C01-r4-2": (["C01"], "needed multi-byte text before an emitted loud comment on the same line (character column used as a byte offset): such snippets were added to the token dictionary - which made detection depend on the PRNG seed (caught on seeds 0 and 2, missed on 1) - and then an enumerated class G8 (160 sheets: multi-byte text before loud comments, blocks and error sites, both styles) which reports it on every seed"),
 "C05-r4-2": (["C05"], "needed a plain CSS @import evaluated while the visitor's parent is the root node: the value-heavy sheet generator now emits `.hoist { a: b; @at-root { @import url(..) } }` after other rules; the fixed-point relation sees the import move"),
 "C12-r4-2": (["C12"], "needed a forwarding module whose forward targets have no member at all of some kind while the forwarder itself has a private member of that kind, observed through `as *`: 22 % of the generated modules are now bare in variables / functions / mixins (independently)"),
 "C13-r4-1": (["C13"], "needed the same URL text loaded three times by importers in different directories: scenario family `repeat-url` (3-6 loads of one URL from the entry and from files in two sub-directories, per-directory files and an optional load path; markers compared in statement order)"),
 "C17-r4-2": (["C17"], "needed three levels with an outer two-query list that shares ONE query text with the levels below and a middle list with an alternative the outer list does not cover: enumeration E6"),
 "C18-r4-1": (["C12"], "needed an `@forward .. as p_*` prefix spelled with an underscore: 35 % of the generated `p-` prefixes (and every name derived from them) are now spelled `p_`"),
 "C18-r4-2": (["C18"], "needed an indented-syntax selector list broken after a comma that is followed by blanks, a tab or a silent comment: twin documents gained rules whose selector list spans several lines (the SCSS twin breaks its lines at the same commas, since a line break after a comma is kept in the output)"),
 "C08-r4-2": (["C08"], "needed math.min/math.max with at least three arguments in mixed convertible units, ordered so that the running extreme changes unit before a later comparison (a near-duplicate of C08-r2-1, which two-argument calls caught): C08 now enumerates `math.max(a, b, a * 3)` / `math.min(a, b, a / 3)` over all unit pairs"),
 "C16-r4-2": (["C16", "C01"], "C16 built clamp() with mutually comparable bounds only; it now also enumerates every unit triple (12^3) under clamp(), min() and max() with values 1/2/3, judged for no-crash only: 5 184 sheets"),
}
kept = 0
for key, line in sorted(conf.items()):
    if '-r4-' not in key or key not in FIRST: continue
    if 'existing_suite_failures=0' not in line or 'demo_with_change=fails' not in line or 'demo_without_change=passes' not in line:
        print("not confirmed:", line); continue
    cid, _, n = key.split('-'); src = f'/tmp/s/{cid}/out'; dst = f'/verif/seeded/{key}'
    os.makedirs(dst, exist_ok=True)
    shutil.copy(f'{src}/patch{n}.diff', f'{dst}/patch.diff')
    for ext in ('rs', 'sh'):
        if os.path.exists(f'{src}/demo{n}.{ext}'): shutil.copy(f'{src}/demo{n}.{ext}', f'{dst}/demo.{ext}')
    try: m = json.load(open(f'{src}/meta{n}.json'))
    except Exception: m = {}
    caught1, missed1 = FIRST[key]
    now = NOW.get(key)
    own_first = cid in caught1
    meta = {"property": cid, "seed": key, "round": "r4", "summary": m.get("summary"), "breaks": m.get("breaks"),
        "needs_to_manifest": m.get("needs_to_manifest"), "files": m.get("files"),
        "author": "fresh sub-agent given only the property text and a scratch worktree",
        "confirmed_by_coordinator": {"how": "tools/confirm_seed_r4.sh in a scratch worktree (/tmp/confirm/repo<k>): patch applied, full `cargo test --workspace` run, demonstration run with and without the change", "result": line},
        "checks_run": {"how": "patch applied to a scratch copy of /repo (/tmp/h<k>) or to /repo itself and undone, harness rebuilt against it, quick tier, VERIF_SEED=0",
                       "first_pass": {"caught_by": caught1, "not_caught_by": missed1},
                       "after_strengthening": ({"caught_by": now[0]} if now and isinstance(now[0], list) else None)},
        "initially_missed": not own_first, "strengthening": (now[1] if now and now[1] else "")}
    json.dump(meta, open(f'{dst}/meta.json', 'w'), indent=1); kept += 1
    print(key, "first:", caught1, missed1, "now:", now[0] if now else "-")
print("kept", kept)

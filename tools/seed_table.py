#!/usr/bin/env python3
"""prints the markdown table of the seeded changes of one round (r2 / r3) from seeded/*/meta.json"""
import json, glob, sys
rnd = sys.argv[1]
print("| seed | change | caught by | tried, not caught by | missed at first |")
print("|---|---|---|---|---|")
for f in sorted(glob.glob(f'/verif/seeded/*-{rnd}-*/meta.json')):
    m = json.load(open(f))
    c = m['checks_run']
    first = 'yes' if m.get('initially_missed') else ('fragile' if m.get('detection_fragile_at_first') else 'no')
    print(f"| {m['seed']} | {(m['summary'] or '')[:150].replace('|','/')} | {', '.join(c['caught_by']) or '–'} | {', '.join(c['not_caught_by']) or '–'} | {first} |")

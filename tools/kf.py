#!/usr/bin/env python3
"""Helpers to write known_findings.json entries (Single / case JSON in the harness's serde format)."""
import json, sys

def single(text=None, path=None, files=None, syntax=None, style="Expanded", quiet=False, unicode=True, charset=True, load_paths=None):
    return {
        "entry": {"Text": text} if path is None else {"Path": path},
        "syntax": syntax, "style": style, "quiet": quiet, "unicode": unicode, "charset": charset,
        "load_paths": load_paths or [], "files": [[n, {"Text": c}] for n, c in (files or [])],
        "fs": "Mem", "mode": "Compile", "logger": "Collect",
    }

def load():
    return json.load(open("/verif/known_findings.json"))

def save(d):
    json.dump(d, open("/verif/known_findings.json", "w"), indent=1, ensure_ascii=False)

def upsert(entry):
    d = load()
    d["findings"] = [e for e in d["findings"] if not (e["property"] == entry["property"] and e["id"] == entry["id"])]
    d["findings"].append(entry)
    d["findings"].sort(key=lambda e: (e["property"], e["id"]))
    save(d)

#!/bin/bash
# usage: tools/merge_builder.sh <builder dir, e.g. /tmp/b/C15> <PropId> <kind:name> ...   (kind = props|oracle|gen)
# copies new module files from a builder workspace and registers them
set -e
B=$1/verif/harness/src; ID=$2; shift 2
H=/verif/harness/src
for km in "$@"; do
  k=${km%%:*}; m=${km##*:}
  cp "$B/$k/$m.rs" "$H/$k/$m.rs"
  grep -q "pub mod $m;" "$H/$k/mod.rs" || echo "pub mod $m;" >> "$H/$k/mod.rs"
done
low=$(echo "$ID" | tr 'A-Z' 'a-z')
grep -q "\"$ID\" =>" $H/main.rs || python3 - "$ID" "$low" <<'PY'
import sys
i,low=sys.argv[1:3]
p='/verif/harness/src/main.rs'
s=open(p).read()
marker='            other => {\n                eprintln!("unknown property {}", other);'
s=s.replace(marker, f'            "{i}" => $f(&props::{low}::{i}, $($args),*),\n'+marker,1)
open(p,'w').write(s)
PY
echo merged $ID

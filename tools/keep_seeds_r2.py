#!/usr/bin/env python3
"""Second and third seeding rounds: copies confirmed seeded changes from /tmp/s2|/tmp/s3/<Cxx>/out into
/verif/seeded/<Cxx>-r<round>-<n>/ and writes meta.json. `MISSED_FIRST` (maintained by hand from the first
runs of the checks against each change) says which ones the property's own check missed before it
was strengthened and what was added; the current result is read from the matrix file written by the
last run of every change against the current checks (scratch copy of /repo and /verif, quick tier, seed 0)."""
import json, os, shutil, sys, re
ROUND = sys.argv[1]            # "r2" | "r3"
SRC = {"r2": "/tmp/s2", "r3": "/tmp/s3"}[ROUND]
MATRIX = sys.argv[2]           # e.g. /tmp/h2/matrix.txt
MISSED_FIRST = {
 "C01-r2-2": "needed a selector or at-rule prelude that starts or ends with non-ASCII white space: NBSP, U+2003, U+3000, U+2028 and friends were added to the token dictionary and to the edges of generated selectors / preludes",
 "C05-r2-2": "needed an @supports condition whose left operand is a parenthesised negation or uses the other operator: an @supports condition generator (and / or / not, explicit parentheses on either side) was added to the sheet generator, and the condition's structure is compared",
 "C02-r2-1": "needed a selector list of more than 100 complex selectors produced by @extend: program kind `gen-extend-many` (101..140 extenders of one target) was added",
 "C02-r2-2": "needed a keyword-argument call of a global built-in (`if($condition: ..)`) after other identifiers had been interned: program kind `gen-named-builtin-args` was added",
 "C18-r2-1": "needed a `//` comment line directly followed by a `/*` comment at the same indentation in the indented syntax: twin documents (gen/dual.rs, consecutive comments and control flow printed by an SCSS and an indented printer) were added as relation `scss-vs-sass-twins`",
 "C18-r2-2": "needed an explicit input_syntax on the entry point together with a load of a file of another syntax: relation `explicit-syntax-entry-loads-other-syntax` was added",
 "C19-r2-1": "needed quiet + a custom logger + meta.load-css(.., $with: ..) producing a warning: logging programs gained a load-css step whose module warns",
 "C19-r2-2": "needed an @error whose value is a slash-separated number literal: message kind `Slash` was added to the logging programs",
 "C20-r2-1": "needed compressed CSS on stdout with a newline followed by at least 1 KiB: class `large-sheet` (banner comment + many rules) was added",
 "C20-r2-2": "needed --stdin with bytes that are not valid UTF-8 in a harmless position: class `invalid-utf8-input` (file argument and --stdin, library as reference) was added",
 "C12-r2-2": "needed a configured name that is also declared `!default` in a nested scope of the loaded module: scenario family `nested-default-consumes-configuration` was added",
 "C10-r2-1": "needed one selector list holding `X + T` and `X ~ T`: directed extended-selector lists that differ only in a combinator were added",
 "C01-r2-1": "caught by the first run (seed 0) but not by a later one under load: the panic needs a sign directly followed by a dot and a non-digit (`-.x`); such tokens were rare products of character mutations, so sign / dot / exponent boundary tokens (`-.`, `+.e`, `1.e3`, ..) were added to the token dictionary - now several shards report it on every seed tried",
 "C12-r2-1": "caught by the first run but only on one seed in three afterwards: needs an un-prefixed `@forward .. show` naming members of one kind only and a reference to a member of another kind; single-kind show lists are now generated deliberately (35 % of the show lists)",
 "C10-r2-2": "needed the same `:not(.t)` in two rules declared before the @extend: family `directed:same-pseudo-in-several-rules` was added",
}
MISSED_FIRST.update(json.load(open('/verif/tools/missed_first_r3.json')) if os.path.exists('/verif/tools/missed_first_r3.json') else {})
# caught by the first run, but not on every seed / under load, until the generator was strengthened
FRAGILE = {"C01-r2-1", "C12-r2-1"}
FRAGILE |= set(json.load(open('/verif/tools/fragile_r3.json'))) if os.path.exists('/verif/tools/fragile_r3.json') else set()
conf = {}
for l in open('/tmp/confirm/results.txt' if os.path.exists('/tmp/confirm/results.txt') else '/verif/tools/seed_confirmations.txt'):
    conf[l.split()[0]] = l.strip()
matrix = {}
for l in open(MATRIX):
    parts = l.split(None, 1)
    if len(parts) == 2: matrix[parts[0]] = parts[1].strip()
kept = 0
for key, line in sorted(conf.items()):
    if f'-{ROUND}-' not in key: continue
    cid, _, n = key.split('-')
    src = f'{SRC}/{cid}/out'
    if 'existing_suite_failures=0' not in line or 'demo_with_change=fails' not in line or 'demo_without_change=passes' not in line:
        print("not confirmed:", line); continue
    res = matrix.get(key, '')
    caught = sorted(set(re.findall(r'(C\d\d) CAUGHT', res)))
    missed = sorted(set(re.findall(r'(C\d\d) MISSED', res)))
    sigs = re.findall(r'failure: \[([^\]]+)\]', res)
    dst = f'/verif/seeded/{key}'
    os.makedirs(dst, exist_ok=True)
    shutil.copy(f'{src}/patch{n}.diff', f'{dst}/patch.diff')
    for ext in ('rs', 'sh'):
        if os.path.exists(f'{src}/demo{n}.{ext}'): shutil.copy(f'{src}/demo{n}.{ext}', f'{dst}/demo.{ext}')
    try: m = json.load(open(f'{src}/meta{n}.json'))
    except Exception: m = {}
    meta = {
        "property": cid, "seed": key, "round": ROUND,
        "summary": m.get("summary"), "breaks": m.get("breaks"), "needs_to_manifest": m.get("needs_to_manifest"), "files": m.get("files"),
        "author": "fresh sub-agent given only the property text and a scratch worktree",
        "confirmed_by_coordinator": {"how": "tools/confirm_seed.sh in scratch worktree /tmp/confirm/repo: patch applied, full `cargo test --workspace` run, demonstration run with and without the change", "result": line},
        "checks_run": {"how": "patch applied to a scratch copy of /repo, harness rebuilt against it, quick tier, VERIF_SEED=0", "caught_by": caught, "not_caught_by": missed, "first_signatures": sigs[:3]},
        "initially_missed": key in MISSED_FIRST and key not in FRAGILE, "detection_fragile_at_first": key in FRAGILE, "strengthening": MISSED_FIRST.get(key, ""),
    }
    json.dump(meta, open(f'{dst}/meta.json', 'w'), indent=1)
    kept += 1
    print(key, 'caught by', caught, 'missed by', missed, '(initially missed)' if key in MISSED_FIRST else '')
print("kept", kept)

#!/bin/bash
# usage: tools/confirm_seed.sh <Cxx> <n>     (reads /tmp/s/Cxx/out/{patchN.diff,demoN.rs|sh})
# Confirms in the scratch worktree /tmp/confirm/repo that the seeded change (1) compiles, (2) leaves
# the existing test suite green, (3) makes its demonstration fail, and that (4) the demonstration
# passes without the change. Appends one line to /tmp/confirm/results.txt.
ID=$1; N=$2; O=${SEED_ROOT:-/tmp/s}/$ID/out; W=${CONFIRM_W:-/tmp/s/$ID/repo}; TAG=${SEED_TAG:-}
cd $W || exit 2
git checkout -q -- . && git clean -fdq -e target
git apply "$O/patch$N.diff" || { echo "$ID$TAG-$N patch-does-not-apply" >> /tmp/confirm/results.txt; exit 1; }
if [ -f "$O/demo$N.rs" ]; then cp "$O/demo$N.rs" crates/lib/tests/seeded_demo.rs; fi
out=$(CARGO_BUILD_JOBS=${CONFIRM_JOBS:-8} cargo test --workspace --no-fail-fast --offline -- --test-threads ${CONFIRM_JOBS:-8} 2>&1 | grep -E "^test result|^error\[|could not compile|Running|failed to")
if echo "$out" | grep -qE "^error\[|could not compile"; then echo "$ID$TAG-$N does-not-compile" >> /tmp/confirm/results.txt; git checkout -q -- .; git clean -fdq -e target; exit 1; fi
# which test binaries failed
failed=$(echo "$out" | awk '/Running/ {cur=$0} /test result: FAILED/ {print cur}' | sed 's/.*Running //' | tr '\n' ' ')
passed=$(echo "$out" | awk '/test result/ {p+=$4} END {print p}')
demo_with="n/a"
if [ -f "$O/demo$N.rs" ]; then
  if echo "$failed" | grep -q "seeded_demo"; then demo_with=fails; else demo_with=PASSES; fi
  others=$(echo "$failed" | tr ' ' '\n' | grep -v "seeded_demo" | grep -c . )
else
  others=$(echo "$failed" | tr ' ' '\n' | grep -c . )
  cargo build -q -p grass --offline 2>/dev/null; if bash "$O/demo$N.sh" $W >/dev/null 2>&1; then demo_with=PASSES; else demo_with=fails; fi
fi
git checkout -q -- crates/compiler crates/lib/src 2>/dev/null; git apply -R "$O/patch$N.diff" 2>/dev/null; git diff --quiet -- crates/compiler crates/lib/src || git checkout -q -- crates/compiler crates/lib/src
if [ -f "$O/demo$N.rs" ]; then
  o2=$(CARGO_BUILD_JOBS=${CONFIRM_JOBS:-8} cargo test -p grass --offline --test seeded_demo 2>&1 | grep -E "^test result|^error")
  if echo "$o2" | grep -q "test result: ok"; then demo_without=passes; else demo_without=FAILS; fi
else
  cargo build -q -p grass --offline 2>/dev/null; if bash "$O/demo$N.sh" $W >/dev/null 2>&1; then demo_without=passes; else demo_without=FAILS; fi
fi
git checkout -q -- . && git clean -fdq -e target
echo "$ID$TAG-$N compiles=yes existing_suite_failures=$others tests_passed=$passed demo_with_change=$demo_with demo_without_change=$demo_without" >> /tmp/confirm/results.txt

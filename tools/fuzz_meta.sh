#!/bin/bash
# Coverage-guided campaign for the metamorphic relations of C18 and C06 (thorough tier):
# libFuzzer + ASan on fuzz/fuzz_targets/meta_relations.rs (oracle inside the target).
# usage: tools/fuzz_meta.sh <runs per worker> <seed> <C18|C06>
# Every artifact is converted into replay cases of the harness (C18: the five rewrites of the
# artifact's text; C06: the text itself) and judged by `vp replay` (release semantics, sandboxed
# worker, the harness's own oracles); only what the harness confirms for the property asked for is
# reported as VIOLATION. Artifacts that are slow units / timeouts / OOM are never a verdict.
ROOT="$(cd "$(dirname "$0")/.." && pwd)"
RUNS=${1:-50000}; SEED=${2:-1}; [ "$SEED" = "0" ] && SEED=1; WANT=${3:-C18}
FZ="$ROOT/fuzz"; T="$FZ/target/campaign-meta"
rm -rf "$T"; mkdir -p "$T/corpus" "$T/artifacts" "$T/stats"
cp /repo/Cargo.lock "$FZ/Cargo.lock" 2>/dev/null
python3 - "$ROOT" "$T/corpus" <<'PY'
import json,sys,os
root,out=sys.argv[1:3]
n=0
for fn in ('corpus.json','fuzz_corpus.json'):
    p=os.path.join(root,'corpus',fn)
    if not os.path.exists(p): continue
    for e in json.load(open(p)):
        if e['syntax']!='scss' or len(e['input'])>1500: continue
        open(os.path.join(out,'c%05d'%n),'wb').write(bytes([n%5,n%4])+e['input'].encode()); n+=1
PY
cd "$FZ" || exit 2
if ! cargo +nightly fuzz build --fuzz-dir "$FZ" meta_relations >"$T/build.log" 2>&1; then
    tail -n 30 "$T/build.log" >&2; echo "INCONCLUSIVE: fuzz target build failed" >&2; exit 2
fi
BIN=$(ls "$FZ"/target/*/release/meta_relations 2>/dev/null | head -1)
[ -x "$BIN" ] || { echo "INCONCLUSIVE: fuzz binary not found" >&2; exit 2; }
JOBS=32; PER=$(( RUNS * 16 / JOBS )); export VERIF_FUZZ_STATS="$T/stats"
export ASAN_OPTIONS=detect_leaks=0
( cd "$T" && "$BIN" corpus -runs="$PER" -seed="$SEED" -max_len=2048 -len_control=0 -timeout=60 -rss_limit_mb=4096 \
    -dict="$FZ/sass.dict" -artifact_prefix="$T/artifacts/" -detect_leaks=0 -jobs=$JOBS -workers=16 -print_final_stats=1 >"$T/fuzz.log" 2>&1 )
EXECS=$(cat "$T"/fuzz-*.log 2>/dev/null | grep -a "stat::number_of_executed_units" | awk '{s+=$2} END {print s+0}')
STATS=$(cat "$T"/stats/stats.* 2>/dev/null | awk '{e+=$1;x+=$2;p+=$3;c+=$4;o+=$5} END {printf "%d %d %d %d %d", e,x,p,c,o}')
echo "meta campaign: $EXECS executions (sampled counters: execs/excluded/compiler-panic-skipped/pairs-compared/pairs-both-ok = $STATS), corpus $(ls "$T/corpus" | wc -l) files, $(ls "$T/artifacts" | wc -l) artifacts"
rc=0; : > "$T/known.txt"
for a in "$T"/artifacts/crash-*; do
    [ -f "$a" ] || continue
    rm -f "$T"/replay-*.json
    python3 - "$a" "$T" <<'PY'
import json,sys
b=open(sys.argv[1],'rb').read(); T=sys.argv[2]
if len(b)<3: sys.exit(1)
try: t=b[2:].decode('utf-8')
except UnicodeDecodeError: sys.exit(1)
comp=bool(b[1]&1)
def c18(rel,bt):
    return {"property":"C18","case":{"rel":rel,"a":t,"a_syntax":"Scss","b":bt,"b_syntax":"Scss","expect":"same","compressed":comp,"weight":5,"note":"fuzz-artifact","a_files":[],"b_files":[]}}
cases=[]
if '\r' not in t and '\x0c' not in t:
    cases+= [c18("newline-crlf",t.replace('\n','\r\n')),c18("newline-cr",t.replace('\n','\r')),c18("newline-ff",t.replace('\n','\x0c'))]
if not t.startswith('\ufeff'): cases+= [c18("leading-bom",'\ufeff'+t)]
if not t.startswith('\ufeff') and not t.lstrip().startswith('@charset'): cases+=[c18("leading-charset",'@charset "UTF-8";\n'+t)]
cases+= [{"property":"C06","case":{"class":"fuzz-artifact","source":t,"syntax":"Scss","features":[],"files":[]}}]
for i,c in enumerate(cases): json.dump(c,open(f"{T}/replay-{c['property']}-{i}.json",'w'))
PY
    [ $? -eq 0 ] || continue
    for r in "$T"/replay-$WANT-*.json; do
        [ -f "$r" ] || continue
        out=$(VP_REPLAY_KNOWN=1 "$ROOT/harness/target/release/vp" replay "$r")
        if echo "$out" | grep -q "^VIOLATION"; then
            mkdir -p "$ROOT/replays/$WANT"; dst="$ROOT/replays/$WANT/fuzz-$(basename "$a")-$(basename "$r")"; cp "$r" "$dst"
            echo "$out" | grep -m1 "^failure:"
            echo "VIOLATION property=$WANT replay=$dst"; rc=1
        else
            echo "$out" | grep "^KNOWN-FINDING" >> "$T/known.txt"
        fi
    done
done
sort "$T/known.txt" | uniq -c | while read n line; do echo "$line [$n fuzz artifacts]"; done
echo "$EXECS" > "$T/executions"; echo "$STATS" > "$T/counters"
exit $rc

#!/usr/bin/env python3
"""usage: tools/snapshot_fuzz_corpus.py <libFuzzer corpus dir (after -merge=1)> [max entries]
Writes /verif/corpus/fuzz_corpus.json: coverage-derived inputs for the thorough tiers of the
metamorphic checks (C05, C06, C18). Kept: valid UTF-8, 8..1500 bytes, not a golden entry, nesting
< 60, no loops, no possible recursion, no random()/unique-id() - the same exclusions the fuzz
target applies before compiling, so every kept input was actually compiled during the campaign."""
import json, os, re, sys, hashlib
src = sys.argv[1]; cap = int(sys.argv[2]) if len(sys.argv) > 2 else 6000
root = os.path.dirname(os.path.dirname(os.path.abspath(__file__)))
golden = {e['input'] for e in json.load(open(os.path.join(root, 'corpus', 'corpus.json')))}
def depth(t):
    d = m = 0
    for ch in t:
        if ch in '({[': d += 1; m = max(m, d)
        elif ch in ')}]': d = max(0, d - 1)
    return m
out = []; seen = set()
for name in sorted(os.listdir(src)):
    b = open(os.path.join(src, name), 'rb').read()
    if len(b) < 10 or len(b) > 1502: continue
    try: t = b[2:].decode('utf-8')
    except UnicodeDecodeError: continue
    if t in golden or t in seen: continue
    low = t.lower()
    if any(k in low for k in ('@while', '@for', '@each', 'random', 'unique-id', 'unique_id', '@include', '@function', 'call(', 'load-css', '\x00')): continue
    if depth(t) >= 60: continue
    seen.add(t)
    out.append({"name": "fuzz-" + hashlib.sha1(b).hexdigest()[:10], "file": "fuzz", "kind": "test", "input": t, "expected": "",
                "syntax": ["scss", "sass", "css"][b[0] % 3], "style": "expanded", "default_options": True, "ignored": False})
# deterministic thinning: keep every k-th by name hash order
out.sort(key=lambda e: e['name'])
if len(out) > cap:
    step = len(out) / cap
    out = [out[int(i * step)] for i in range(cap)]
json.dump(out, open(os.path.join(root, 'corpus', 'fuzz_corpus.json'), 'w'), ensure_ascii=False, indent=0)
print(len(out), "entries;", sum(len(e['input']) for e in out), "bytes;", {s: sum(1 for e in out if e['syntax'] == s) for s in ('scss', 'sass', 'css')})

#!/bin/bash
# usage: tools/try_seed.sh <patch.diff> <Cxx> [Cyy ...]
# Applies a seeded change to /repo, runs the quick checks named, undoes the change.
# Prints one line per check: CAUGHT (exit 1 + VIOLATION) / MISSED (exit 0) / INCONCLUSIVE.
P=$1; shift
cd /repo && git diff --quiet || { echo "/repo is dirty"; exit 2; }
git -C /repo apply "$P" || { echo "patch does not apply"; exit 2; }
trap 'git -C /repo checkout -- . ; (cd /verif/harness && cargo build --release --offline -q 2>/dev/null); [ -x /verif/harness/target/cli/release/grass ] && (cd /verif && ./check --build-cli 2>/dev/null)' EXIT
for id in "$@"; do
  out=$(cd /verif && VERIF_SEED=${VERIF_SEED:-0} ./check $id quick 2>&1); rc=$?
  sig=$(echo "$out" | grep -m3 "failure:" | cut -c1-160 | tr '\n' '|')
  case $rc in
    1) echo "$id CAUGHT $sig";;
    0) echo "$id MISSED $(echo "$out" | grep "quick:" | tail -1 | cut -c1-90)";;
    *) echo "$id INCONCLUSIVE rc=$rc $(echo "$out" | tail -2 | tr '\n' ' ' | cut -c1-200)";;
  esac
done
